#!/usr/bin/env python3
"""tools/seedtable.py  regenerates seeded/README.md from seeded/*/meta.json"""
import json, os, glob

V = os.path.dirname(os.path.dirname(os.path.abspath(__file__)))
rows = []
for d in sorted(glob.glob(os.path.join(V, "seeded", "*", "meta.json"))):
    m = json.load(open(d))
    name = os.path.basename(os.path.dirname(d))
    rows.append((name, m))
out = ["# Seeded changes", "",
       "Each directory holds one change to mpoeter/xenium written by an independent sub-agent that was given only the text of",
       "one property and a scratch worktree (nothing from /verif): `patch.diff` (applies to /repo with `git -C /repo apply`),",
       "the author's demonstration (`demo.cpp`, `run_demo.sh`; fails with the change, passes without), the author's `NOTES.md`",
       "and `meta.json` (property, what the change needs in order to show, what I ran to confirm it, which checks catch it).",
       "Every change was re-confirmed by me in the scratch worktree: demonstration with and without the change, the",
       "existing test suite with the change (passes), then my quick checks against a scratch copy of /repo/xenium with the",
       "patch applied (`tools/seedcheck.sh`). None of them was ever committed to /repo.", "",
       "| change | property | needs | caught by (quick tier) | remarks |", "|---|---|---|---|---|"]
for name, m in rows:
    out.append("| `%s` | %s | %s | %s | %s |" % (name, m.get("property"), m.get("needs", "").replace("|", "/"), ", ".join(m.get("caught_by", [])) or "**missed**",
                                            (m.get("strengthened") or m.get("remarks") or "").replace("|", "/")))
out.append("")
open(os.path.join(V, "seeded", "README.md"), "w").write("\n".join(out))
print("\n".join(out))
