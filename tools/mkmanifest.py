#!/usr/bin/env python3
"""Regenerates /verif/MANIFEST.json from vprops.PROPS (claimed checks) and properties.jsonl (everything else -> not_applicable)."""
import json, os, sys
V = os.path.dirname(os.path.dirname(os.path.abspath(__file__)))
sys.path.insert(0, V)
import vprops

m = {
    "version": 1,
    "setup_cmd": "python3 vcheck.py --setup",
    "hooks": {
        "guard": "XENIUM_VERIF",
        "enable": "no source hooks are needed: the interposition lives in /verif/engine/prelude_begin.hpp (token redirection of std::atomic / "
                  "atomic_thread_fence / std::mutex / utils::random / this_thread::yield while the unmodified xenium headers are parsed) and in "
                  "the TSan-ABI access hooks of /verif/engine/vrt.cpp; the guard name is reserved but unused",
        "baseline_off_cmd": "cmake --build /repo/_build --target gtest && ctest --test-dir /repo/_build -j8 --timeout 900",
        "source_commits": [],
        "add_only": True,
    },
    "engines": [{
        "name": "vsched",
        "path": "engine/",
        "serves_properties": sorted(vprops.PROPS.keys()),
        "kind_free_text": "property-based testing over generated programs x generated schedules (and read-from choices in weak mode): the real "
                          "xenium headers run on real threads serialized by a token-passing scheduler, with a quarantine allocator, instrumented "
                          "plain accesses, fork-per-case isolation, explicit oracles, and shrinking on recorded decision traces",
    }, {
        "name": "vfuzz",
        "path": "harness/fuzzseq.cpp",
        "serves_properties": sorted(vprops.FUZZ.keys()),
        "kind_free_text": "coverage-guided fuzzing (libFuzzer, clang 14) of a native AddressSanitizer + UBSan build with the library's assertions "
                          "enabled: bytes are decoded into (container family, configuration, operation sequence), every result is compared with a "
                          "reference model, full scans / per-key lookups / element census at the end; crash artifacts are confirmed 3x, minimized and "
                          "stored as JSON replay files; runs inside the same vcheck.py command after the schedule campaign",
    }],
    "checks": [],
    "not_applicable": [],
    "notes": "All checks: `python3 vcheck.py <id> --tier quick|thorough` (VERIF_SEED / VERIF_TIER honoured). Replay: `python3 vcheck.py --replay <file>`. "
             "Known findings: known_findings.json. Design: DESIGN.md.",
}
for pid in sorted(vprops.PROPS):
    sp = vprops.PROPS[pid]
    m["checks"].append({
        "property_id": pid,
        "quick_cmd": "python3 vcheck.py %s --tier quick" % pid,
        "thorough_cmd": "python3 vcheck.py %s --tier thorough" % pid,
        "evidence_file": "evidence/%s.json" % pid,
        "replay_cmd_template": "python3 vcheck.py --replay {path}",
        "engine": "vsched",
        "engines_used": ["vsched", "vfuzz"] if pid in vprops.FUZZ else ["vsched"],
        "level_claimed": {"category": "exploration", "text": sp["level_text"] + (
            " The same command then runs Engine B: coverage-guided fuzzing (libFuzzer, ASan+UBSan, assertions on) of decoded single-threaded operation "
            "sequences of the families %s against a reference model (10^4-10^6 cases per quick run, millions in the thorough tier)." % ", ".join(vprops.FUZZ[pid])
            if pid in vprops.FUZZ else ""), "design_ref": "DESIGN.md section 7/" + pid + " and section 13 (Engine B)"},
        "level_note": sp["level_note"],
        "technique": sp["technique"],
    })
for l in open(os.path.join(V, "properties.jsonl")):
    pid = json.loads(l)["id"]
    if pid not in vprops.PROPS:
        m["not_applicable"].append({"property_id": pid, "reason": vprops.NOT_YET.get(pid, "check not built yet in this round; design in DESIGN.md section 7/" + pid)})
json.dump(m, open(os.path.join(V, "MANIFEST.json"), "w"), indent=1)
print("MANIFEST.json: %d checks, %d not_applicable" % (len(m["checks"]), len(m["not_applicable"])))
