#!/bin/bash
# tools/seedcheck.sh <ID> <PROP...>   confirm a seeded change delivered in /tmp/wt/<ID>/SEED and run my checks against it
# (scratch copy of /repo/xenium with the patch applied; /repo itself is not touched)
ID=$1; shift
WT=${SEED_WT:-/tmp/wt}/$ID
set -u
echo "== demo with the change"; (cd $WT && timeout 900 bash SEED/run_demo.sh > ${SEED_WT:-/tmp/wt}/$ID.demo_with.log 2>&1; echo "exit=$?")
echo "== demo without the change"; (cd $WT && git stash -q -- xenium && timeout 900 bash SEED/run_demo.sh > ${SEED_WT:-/tmp/wt}/$ID.demo_without.log 2>&1; echo "exit=$?"; git stash pop -q)
echo "== existing suite with the change"; (cd $WT && cmake --build _build --target gtest 2>&1 | tail -1; timeout 1800 ctest --test-dir _build -j8 --timeout 900 2>&1 | tail -3)
rm -rf /tmp/seedx-$ID && mkdir -p /tmp/seedx-$ID && cp -r /repo/xenium /tmp/seedx-$ID/ && (cd /tmp/seedx-$ID && git init -q . 2>/dev/null; patch -p1 --binary < $WT/SEED/patch.diff | tail -2)
for P in "$@"; do
  echo "== my check $P against the change"
  VERIF_XENIUM_ROOT=/tmp/seedx-$ID VERIF_EVIDENCE_DIR=/tmp/seedx-$ID/evidence VERIF_REPLAY_DIR=/tmp/seedx-$ID/replays python3 /verif/vcheck.py $P --tier quick 2>&1 | grep -v "^KNOWN-FINDING" | cut -c1-220 | head -8
done
rm -rf /tmp/seedx-$ID
