#!/usr/bin/env python3
"""tools/seedrun.py [name-substring...]   re-run my quick checks against every kept seeded change (scratch copy of
/repo/xenium with the patch applied, /repo itself is not touched); writes seeded/results.json"""
import json, os, re, shutil, subprocess, sys, glob, time

V = os.path.dirname(os.path.dirname(os.path.abspath(__file__)))
REPO = os.environ.get("VERIF_XENIUM_ROOT", "/repo")
res_path = os.path.join(V, "seeded", "results.json")
results = json.load(open(res_path)) if os.path.exists(res_path) else {}
for mp in sorted(glob.glob(os.path.join(V, "seeded", "*", "meta.json"))):
    d = os.path.dirname(mp)
    name = os.path.basename(d)
    if sys.argv[1:] and not any(a in name for a in sys.argv[1:]):
        continue
    m = json.load(open(mp))
    root = "/tmp/seedrun-" + name
    shutil.rmtree(root, ignore_errors=True)
    os.makedirs(root)
    subprocess.check_call(["cp", "-r", os.path.join(REPO, "xenium"), root])
    r = subprocess.run(["patch", "-p1", "--binary", "-s", "-i", os.path.join(d, "patch.diff")], cwd=root, stdout=subprocess.PIPE, stderr=subprocess.STDOUT, text=True)
    if r.returncode != 0:
        print("%-70s PATCH DOES NOT APPLY: %s" % (name, r.stdout.strip()[:200]))
        results[name] = {"status": "patch_does_not_apply"}
        shutil.rmtree(root, ignore_errors=True)
        continue
    out = {}
    for prop in m.get("caught_by") or [m["property"]]:
        env = dict(os.environ, VERIF_XENIUM_ROOT=root, VERIF_EVIDENCE_DIR=root + "/ev", VERIF_REPLAY_DIR=root + "/rp")
        t0 = time.time()
        c = subprocess.run(["python3", os.path.join(V, "vcheck.py"), prop, "--tier", "quick"], env=env, stdout=subprocess.PIPE, stderr=subprocess.STDOUT, text=True)
        kinds = sorted(set(re.findall(r"^  (\S+) \[", c.stdout, re.M)))
        nviol = len(re.findall(r"^VIOLATION ", c.stdout, re.M))
        out[prop] = {"exit": c.returncode, "violation_lines": nviol, "kinds": kinds, "wall_s": round(time.time() - t0, 1)}
        print("%-70s %s exit=%d %s" % (name, prop, c.returncode, ",".join(kinds)[:90]), flush=True)
    results[name] = {"status": "caught" if all(v["exit"] == 1 for v in out.values()) else "MISSED by " + ",".join(k for k, v in out.items() if v["exit"] != 1), "checks": out}
    shutil.rmtree(root, ignore_errors=True)
    json.dump(results, open(res_path, "w"), indent=1)
