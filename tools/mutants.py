#!/usr/bin/env python3
"""Sensitivity sweep: applies each deliberate breakage (a text replacement in a scratch copy of /repo/xenium),
runs the owning property's quick check against the copy (VERIF_XENIUM_ROOT) and records whether it was caught.

  tools/mutants.py [name-substring ...]      results -> mutants/results.json (+ printed table)

The scratch copies live under /tmp/vmut and are removed afterwards.  Nothing is ever changed in /repo.
"""
import json
import os
import re
import shutil
import subprocess
import sys
import time

V = os.path.dirname(os.path.dirname(os.path.abspath(__file__)))
REPO = "/repo"

# (name, property, file, old, new)   - `old` must occur exactly once
M = [
    # ---- reclaimers (C01 / C02 / C17 / C18)
    ("hp_acquire_no_revalidate", "C01", "xenium/reclamation/impl/hazard_pointer.hpp",
     "  } while (p1.get() != p2.get());", "  } while (false);"),
    ("ebr_free_after_two_epochs", "C01", "xenium/reclamation/generic_epoch_based.hpp",
     "static constexpr epoch_t number_epochs = 3;", "static constexpr epoch_t number_epochs = 2;"),
    ("lfrc_acquire_no_second_load", "C01", "xenium/reclamation/impl/lock_free_ref_count.hpp",
     "    if (q == p.load(order)) {\n      return;\n    }\n  }\n}", "    return;\n  }\n}"),
    ("qsbr_ignore_lagging_thread", "C01", "xenium/reclamation/impl/quiescent_state_based.hpp",
     "return data.local_epoch.load(memory_order) == old_epoch && data.is_active(memory_order);", "return false && data.local_epoch.load(memory_order) == old_epoch && data.is_active(memory_order);"),
    ("he_retire_era_minus_one", "C01", "xenium/reclamation/impl/hazard_eras.hpp",
     "p->retirement_era = era_clock.fetch_add(1, std::memory_order_release);", "p->retirement_era = era_clock.fetch_add(1, std::memory_order_release) - 1;"),
    ("ebr_thread_exit_drops_retired", "C02", "xenium/reclamation/impl/generic_epoch_based.hpp",
     "        orphans[i].add(retire_lists[i].steal());\n      }\n    }\n\n    assert(control_block->is_in_critical_region", "        retire_lists[i].steal();\n      }\n    }\n\n    assert(control_block->is_in_critical_region"),
    ("hp_abandon_only_head", "C02", "xenium/reclamation/detail/thread_block_list.hpp",
     "    auto* last = obj;\n    auto* next = last->next;\n    while (next) {\n      last = next;\n      next = last->next;\n    }", "    auto* last = obj;\n    last->next = nullptr;"),
    ("delete_objects_skips_last", "C02", "xenium/reclamation/detail/deletable_object.hpp",
     "  for (deletable_object* next = nullptr; cur != nullptr; cur = next) {\n    next = cur->next;\n    cur->delete_self();\n  }",
     "  for (deletable_object* next = nullptr; cur != nullptr && (cur->next != nullptr || cur == list); cur = next) {\n    next = cur->next;\n    cur->delete_self();\n  }"),
    ("thread_block_never_adopted", "C17", "xenium/reclamation/detail/thread_block_list.hpp",
     "if (state.load(std::memory_order_relaxed) == entry_state::free) {", "if (false && state.load(std::memory_order_relaxed) == entry_state::free) {"),
    ("hp_release_slot_not_relinked", "C18", "xenium/reclamation/impl/hazard_pointer.hpp",
     "        hp->set_link(hint);\n        hint = hp;\n        hp = nullptr;", "        hp->set_link(hint);\n        hp = nullptr;"),
    ("he_release_forgets_last", "C18", "xenium/reclamation/impl/hazard_eras.hpp",
     "        if (he == last_hazard_era) {\n          last_hazard_era = nullptr;\n        }\n", ""),
    # ---- queues (C04 - C07)
    ("ms_pop_no_tail_help", "C16", "xenium/michael_scott_queue.hpp",
     "REPLACE_WITH_SCRIPT", ""),
    ("ramalhete_empty_ignores_next", "C04", "xenium/ramalhete_queue.hpp",
     "if (pop_idx >= push_idx && h->next.load(std::memory_order_relaxed) == nullptr) {", "if (pop_idx >= push_idx) {"),
    ("scq_catchup_drops_finalized", "C04", "xenium/detail/nikolaev_scq.hpp",
     "head | (tail & finalized)", "head"),
    ("vyukov_strong_push_full_check", "C05", "xenium/vyukov_bounded_queue.hpp",
     "REPLACE_WITH_SCRIPT", ""),
    ("nikolaev_bounded_threshold", "C05", "xenium/detail/nikolaev_scq.hpp",
     "      const auto threshold = static_cast<std::int64_t>(n + capacity - 1);", "      const auto threshold = static_cast<std::int64_t>(capacity > 2 ? 1 : 0);"),
    ("kirsch_find_index_scans_k_minus_1", "C06", "xenium/kirsch_kfifo_queue.hpp",
     "REPLACE_WITH_SCRIPT", ""),
    ("kirsch_bounded_index_16_bits", "C06", "xenium/kirsch_bounded_kfifo_queue.hpp",
     "static constexpr unsigned bits = 32;", "static constexpr unsigned bits = 16;"),
    ("ramalhete_dtor_unclamped", "C07", "xenium/ramalhete_queue.hpp",
     "const unsigned end = std::min(push_idx.load(std::memory_order_relaxed), max_idx);", "const unsigned end = push_idx.load(std::memory_order_relaxed);"),
    ("nikolaev_push_rollback_keeps_value", "C07", "xenium/nikolaev_queue.hpp",
     "        value = std::move(data);\n        data.~T(); // NOLINT (use-after-move)\n        _free_queue.enqueue<false, false>(eidx, entries_per_node, remap_shift);\n        return false;",
     "        data.~T(); // NOLINT (use-after-move)\n        _free_queue.enqueue<false, false>(eidx, entries_per_node, remap_shift);\n        return false;"),
    # ---- sets / maps (C08 - C11)
    ("hm_set_erase_no_mark_cas", "C08", "xenium/harris_michael_list_based_set.hpp",
     "REPLACE_WITH_SCRIPT", ""),
    ("hm_map_product_order", "C09", "xenium/harris_michael_hash_map.hpp",
     "return hash > h || (hash == h && value.first >= key);", "return hash >= h && value.first >= key;"),
    ("hm_iterator_fallback_find", "C09", "xenium/harris_michael_list_based_set.hpp",
     "REPLACE_WITH_SCRIPT", ""),
    ("vyukov_tryget_no_version_recheck", "C10", "xenium/impl/vyukov_hash_map.hpp",
     "REPLACE_WITH_SCRIPT", ""),
    ("vyukov_grow_forgets_extension", "C10", "xenium/impl/vyukov_hash_map.hpp",
     "    for (extension_item* extension = old_bucket.head; extension != nullptr;\n         extension = extension->next.load(std::memory_order_relaxed)) {",
     "    for (extension_item* extension = old_bucket.head; extension != nullptr && bucket_idx != 1;\n         extension = extension->next.load(std::memory_order_relaxed)) {"),
    ("vyukov_erase_it_keeps_old_version", "C11", "xenium/impl/vyukov_hash_map.hpp",
     "    pos.current_bucket_state = locked_state.new_version().clear_lock();\n", ""),
    ("vyukov_reset_keeps_lock", "C11", "xenium/impl/vyukov_hash_map.hpp",
     "    current_bucket->state.store(current_bucket_state, std::memory_order_release);\n  }\n\n  block.reset();",
     "    if (index != 1) current_bucket->state.store(current_bucket_state, std::memory_order_release);\n  }\n\n  block.reset();"),
    # ---- deque, left_right, seqlock (C12 - C14)
    ("deque_steal_ignores_cas", "C12", "xenium/chase_work_stealing_deque.hpp",
     "  if (_top.compare_exchange_strong(t, t + 1, std::memory_order_seq_cst, std::memory_order_relaxed)) {\n    result = item;\n    return true;\n  }\n\n  return false;",
     "  _top.compare_exchange_strong(t, t + 1, std::memory_order_seq_cst, std::memory_order_relaxed);\n  result = item;\n  return true;"),
    ("deque_grow_modulo", "C12", "xenium/detail/growing_circular_array.hpp",
     "auto newI = i & new_mod_mask;", "auto newI = i % new_mod_mask;"),
    ("deque_get_no_capacity_recheck", "C12", "xenium/detail/growing_circular_array.hpp",
     "      if (new_capacitiy == capacitiy) {\n        return result;\n      }", "      if (new_capacitiy == capacitiy || true) {\n        return result;\n      }"),
    ("left_right_wait_one_indicator", "C13", "xenium/left_right.hpp",
     "    wait_for_readers(next_idx);\n    _version_index.store(next_idx, std::memory_order_relaxed);\n    wait_for_readers(current_idx);",
     "    wait_for_readers(next_idx);\n    _version_index.store(next_idx, std::memory_order_relaxed);"),
    ("seqlock_retry_condition", "C14", "xenium/seqlock.hpp",
     "if (seq2 - seq < (2 * slots - 1)) {", "if (seq2 - seq <= (2 * slots)) {"),
    ("seqlock_truncated_copy", "C14", "xenium/seqlock.hpp",
     "static constexpr std::size_t words_per_slot = (sizeof(T) + sizeof(copy_t) - 1) / sizeof(copy_t);", "static constexpr std::size_t words_per_slot = sizeof(T) / sizeof(copy_t);"),
    # ---- pointer algebra (C15)
    ("marked_ptr_rotate_right", "C15", "xenium/utils.hpp",
     "    return (v >> C) | (v << (64 - C));", "    return (v >> (C + 1)) | (v << (64 - C - 1));"),
    ("ebr_move_ctor_keeps_source", "C15", "xenium/reclamation/impl/generic_epoch_based.hpp",
     "generic_epoch_based<Traits>::guard_ptr<T, MarkedPtr>::guard_ptr(guard_ptr&& p) noexcept : base(p.ptr) {\n  p.ptr.reset();\n}",
     "generic_epoch_based<Traits>::guard_ptr<T, MarkedPtr>::guard_ptr(guard_ptr&& p) noexcept : base(p.ptr) {\n}"),
    # ---- weak memory (C03)
    ("ms_link_cas_relaxed", "C03", "xenium/michael_scott_queue.hpp",
     "REPLACE_WITH_SCRIPT", ""),
    ("seqlock_no_release_fence", "C03", "xenium/seqlock.hpp",
     "  // (7) - this release-fence synchronizes-with the acquire-fence (6)\n  XENIUM_THREAD_FENCE(std::memory_order_release);", "  // (7) - removed"),
    ("deque_bottom_store_relaxed", "C03", "xenium/chase_work_stealing_deque.hpp",
     "  _bottom.store(b + 1, std::memory_order_release);", "  _bottom.store(b + 1, std::memory_order_relaxed);"),
    ("hp_set_object_no_fence", "C03", "xenium/reclamation/impl/hazard_pointer.hpp",
     "        // (4) - this seq_cst-fence enforces a total order with the seq_cst-fence (8)\n        XENIUM_THREAD_FENCE(std::memory_order_seq_cst);", "        // (4) - removed"),
    ("qsbr_fence_only_on_success", "C03", "xenium/reclamation/impl/quiescent_state_based.hpp",
     "    XENIUM_THREAD_FENCE(std::memory_order_acquire);\n\n    if (global_epoch.load(std::memory_order_relaxed) == curr_epoch) {", "    if (global_epoch.load(std::memory_order_relaxed) == curr_epoch) {\n      XENIUM_THREAD_FENCE(std::memory_order_acquire);"),
]


def scripted(name, text):
    """replacements that need a regular expression"""
    if name == "ms_pop_no_tail_help":
        # pop spins until somebody else has swung the tail instead of helping
        m = re.search(r"(\s+)(// \(\d+\)[^\n]*\n\s+)?_tail\.compare_exchange_weak\(", text)
        i = text.index("template <class T, class... Policies>\nauto michael_scott_queue<T, Policies...>::pop_node()")
        body = text[i:]
        j = body.index("_tail.compare_exchange_weak(")
        k = body.index(");", j) + 2
        return text[:i] + body[:j] + "continue; (void)" + body[j:k].replace("\n", " ") + body[k:]
    if name == "vyukov_strong_push_full_check":
        return text.replace("dequeue_pos.load(std::memory_order_relaxed) + index_mask + 1 == pos", "dequeue_pos.load(std::memory_order_relaxed) + index_mask == pos", 1) if "index_mask + 1 == pos" in text else None
    if name == "kirsch_find_index_scans_k_minus_1":
        return text.replace("  for (size_t i = 0; i < k; i++) {", "  for (size_t i = 0; i + 1 < k || i == 0; i++) {", 1)
    if name == "hm_set_erase_no_mark_cas":
        old = "    if (info.cur->next.compare_exchange_weak(\n          info.next, marked_ptr(info.next.get(), 1), std::memory_order_acquire, std::memory_order_relaxed)) {\n      break;\n    }"
        return text.replace(old, "    (void)info.cur->next.load(std::memory_order_acquire);\n    break;", 1) if old in text else None
    if name == "hm_iterator_fallback_find":
        old = "    // cur->next has changed, but cur is not marked -> simply retry; falling back to find\n    // would return cur itself, i.e., the iterator would not advance.\n  }"
        new = "    {\n      auto key = info.cur->key;\n      backoff backoff;\n      list->find(key, info, backoff);\n      break;\n    }\n  }"
        return text.replace(old, new, 1) if old in text else None
    if name == "vyukov_tryget_no_version_recheck":
        old = "      const auto state2 = bucket.state.load(std::memory_order_relaxed);\n      if (state.version() != state2.version()) {"
        return text.replace(old, "      const auto state2 = bucket.state.load(std::memory_order_relaxed);\n      if (false && state.version() != state2.version()) {", 1) if old in text else None
    if name == "ms_link_cas_relaxed":
        i = text.index("void michael_scott_queue<T, Policies...>::push(T value)")
        body = text[i:]
        j = body.index("compare_exchange_weak(", body.index("Attempt to link in the new element"))
        k = body.index(")", body.index("std::memory_order_release", j))
        seg = body[j:k].replace("std::memory_order_release", "std::memory_order_relaxed", 1)
        return text[:i] + body[:j] + seg + body[k:]
    return None


def main():
    filt = sys.argv[1:]
    os.makedirs(os.path.join(V, "mutants"), exist_ok=True)
    respath = os.path.join(V, "mutants", "results.json")
    results = json.load(open(respath)) if os.path.exists(respath) else {}
    for name, prop, rel, old, new in M:
        if filt and not any(f in name or f == prop for f in filt):
            continue
        root = "/tmp/vmut/" + name
        shutil.rmtree(root, ignore_errors=True)
        os.makedirs(root)
        subprocess.check_call(["cp", "-r", os.path.join(REPO, "xenium"), root])
        path = os.path.join(root, rel)
        text = open(path, newline="").read()
        crlf = "\r\n" in text
        t2 = text.replace("\r\n", "\n")
        if old == "REPLACE_WITH_SCRIPT":
            out = scripted(name, t2)
        else:
            out = t2.replace(old, new, 1) if t2.count(old) == 1 else None
        if out is None or out == t2:
            print("%-40s %s  NOT APPLICABLE (pattern not found)" % (name, prop))
            results[name] = {"property": prop, "status": "pattern_not_found"}
            shutil.rmtree(root, ignore_errors=True)
            continue
        open(path, "w", newline="").write(out.replace("\n", "\r\n") if crlf else out)
        env = dict(os.environ, VERIF_XENIUM_ROOT=root, VERIF_SEED=os.environ.get("VERIF_SEED", "1"), VERIF_EVIDENCE_DIR="/tmp/vmut/evidence",
                   VERIF_REPLAY_DIR="/tmp/vmut/replays")
        t0 = time.time()
        r = subprocess.run(["python3", os.path.join(V, "vcheck.py"), prop, "--tier", "quick"], env=env, stdout=subprocess.PIPE, stderr=subprocess.STDOUT, text=True)
        dt = time.time() - t0
        kinds = sorted(set(re.findall(r"^  (\S+) \[", r.stdout, re.M)))
        status = "caught" if r.returncode == 1 else "build_failed" if r.returncode == 2 else "MISSED"
        print("%-40s %s  %-12s %5.0fs  %s" % (name, prop, status, dt, ",".join(kinds)[:100]))
        results[name] = {"property": prop, "status": status, "kinds": kinds, "wall_s": round(dt, 1), "file": rel}
        if status == "build_failed":
            results[name]["output"] = r.stdout[-1500:]
        shutil.rmtree(root, ignore_errors=True)
        json.dump(results, open(respath, "w"), indent=1)
    shutil.rmtree("/tmp/vmut", ignore_errors=True)


if __name__ == "__main__":
    main()
