#!/usr/bin/env python3
"""tools/seedstore.py <worktree-id> <name> <property> <json meta fields...>  copies a confirmed seeded change into /verif/seeded/<name>/"""
import json, os, shutil, sys
wid, name, prop = sys.argv[1:4]
meta = json.loads(sys.argv[4])
src = os.environ.get("SEED_WT", "/tmp/wt") + "/%s/SEED" % wid
dst = "/verif/seeded/%s" % name
os.makedirs(dst, exist_ok=True)
for f in os.listdir(src):
    if os.path.isfile(os.path.join(src, f)) and os.path.getsize(os.path.join(src, f)) < 400000 and not f.endswith((".log", ".o")) and f not in ("demo", "a.out", "demo_bin", "demo.bin"):
        shutil.copy(os.path.join(src, f), dst)
meta = dict({"property": prop, "source": "independent sub-agent, given only the property text and a scratch worktree"}, **meta)
json.dump(meta, open(os.path.join(dst, "meta.json"), "w"), indent=1)
print("stored", dst, sorted(os.listdir(dst)))
