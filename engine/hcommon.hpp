// Helpers shared by the Engine-A harness translation units (instrumented code).
#pragma once
#include "vharness.h"
#include "vrt.h"

#include <cstdint>
#include <cstdio>
#include <cstring>
#include <functional>
#include <string>
#include <vector>

namespace vh {

// allocator that places harness bookkeeping into the harness arena (never a scheduling point, never race-checked)
template <class T>
struct HAlloc {
  using value_type = T;
  HAlloc() = default;
  template <class U>
  HAlloc(const HAlloc<U>&) {}
  T* allocate(size_t n) {
    vrt::TagScope ts(vrt::TAG_HARNESS);
    return static_cast<T*>(::operator new(n * sizeof(T)));
  }
  void deallocate(T* p, size_t) { ::operator delete(p); }
  template <class U>
  bool operator==(const HAlloc<U>&) const {
    return true;
  }
  template <class U>
  bool operator!=(const HAlloc<U>&) const {
    return false;
  }
};
template <class T>
using hvec = std::vector<T, HAlloc<T>>;

inline uint64_t hmix1(uint64_t z) {
  z += 0x9e3779b97f4a7c15ull;
  z = (z ^ (z >> 30)) * 0xbf58476d1ce4e5b9ull;
  z = (z ^ (z >> 27)) * 0x94d049bb133111ebull;
  return z ^ (z >> 31);
}
// order-dependent combination of two 64-bit values (both are fully mixed before they are combined)
inline uint64_t hmix(uint64_t a, uint64_t b) {
  return hmix1(hmix1(a) + 0x632be59bd9b4e019ull * hmix1(b ^ 0xd6e8feb86659fd93ull));
}

// ---- threads: run a callable as a logical thread -----------------------------------------------------
struct ThreadBody {
  std::function<void()> fn;
};
inline void thread_tramp(void* p) {
  auto* b = static_cast<ThreadBody*>(p);
  b->fn();
}
struct Threads {
  static constexpr int MAX = 8;
  ThreadBody bodies[MAX];
  int tids[MAX];
  int n = 0;
  template <class F>
  void start(F&& f) {
    {
      vrt::TagScope ts(vrt::TAG_HARNESS);
      bodies[n].fn = std::forward<F>(f);
    }
    tids[n] = vrt::spawn(&thread_tramp, &bodies[n]);
    n++;
  }
  void join_all() {
    for (int i = 0; i < n; ++i) vrt::join(tids[i]);
    n = 0;
  }
};

inline bool prop_is(const char* p) { return std::strcmp(vrt::prop(), p) == 0; }

#define VH_CFG(name, fn, tags) vrt::Cfg{name, fn, tags}

} // namespace vh
