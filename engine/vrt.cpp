// vrt.cpp — verification runtime (Engine A): token-passing scheduler over real threads, quarantine
// allocator, TSan-ABI access hooks, view-based weak memory model, FastTrack-style race detector,
// decision recording / replay.  Compiled WITHOUT instrumentation.
#include "vrt.h"
#include "vshm.h"

#include <atomic>
#include <cerrno>
#include <climits>
#include <initializer_list>
#include <csignal>
#include <cstdio>
#include <cstdlib>
#include <cstring>
#include <linux/futex.h>
#include <new>
#include <pthread.h>
#include <sys/mman.h>
#include <sys/syscall.h>
#include <unistd.h>

namespace vrt {

Shm* g_shm = nullptr;
static bool g_active = false; // a case is running in this process

// ------------------------------------------------------------------------------------------------
// small utilities
// ------------------------------------------------------------------------------------------------
struct Rng {
  uint64_t s;
  uint64_t next() {
    uint64_t z = (s += 0x9e3779b97f4a7c15ull);
    z = (z ^ (z >> 30)) * 0xbf58476d1ce4e5b9ull;
    z = (z ^ (z >> 27)) * 0x94d049bb133111ebull;
    return z ^ (z >> 31);
  }
  uint32_t below(uint32_t n) { return n <= 1 ? 0 : (uint32_t)(next() % n); }
  bool one_in(uint32_t n) { return below(n) == 0; }
};
static uint64_t mix(uint64_t a, uint64_t b) {
  Rng r{a ^ (b * 0x9e3779b97f4a7c15ull)};
  r.next();
  return r.next();
}

template <class T>
struct MVec { // malloc based vector: the runtime never uses operator new
  T* p = nullptr;
  uint32_t n = 0, cap = 0;
  void push(const T& v) {
    if (n == cap) {
      cap = cap ? cap * 2 : 8;
      p = (T*)realloc((void*)p, sizeof(T) * cap);
    }
    p[n++] = v;
  }
  T& operator[](uint32_t i) { return p[i]; }
  T& back() { return p[n - 1]; }
  void erase_front(uint32_t k) {
    memmove((void*)p, (void*)(p + k), sizeof(T) * (n - k));
    n -= k;
  }
};

static long futex(void* addr, int op, int val) { return syscall(SYS_futex, addr, op, val, nullptr, nullptr, 0); }

// ------------------------------------------------------------------------------------------------
// global state of a case
// ------------------------------------------------------------------------------------------------
enum TState : int { T_NONE = 0, T_RUNNABLE, T_BLOCKED_JOIN, T_BLOCKED_MUTEX, T_FINISHED };

struct VC {
  uint32_t c[MAXT];
  void join(const VC& o) {
    for (int i = 0; i < MAXT; ++i)
      if (o.c[i] > c[i]) c[i] = o.c[i];
  }
  bool leq(const VC& o) const {
    for (int i = 0; i < MAXT; ++i)
      if (c[i] > o.c[i]) return false;
    return true;
  }
};

struct Thr {
  std::atomic<uint32_t> go{0};
  pthread_t pt{};
  int state = T_NONE;
  int wait_tid = -1;
  void* wait_mutex = nullptr;
  thread_fn fn = nullptr;
  void* arg = nullptr;
  uint64_t steps = 0;
  uint32_t spin = 0;
  uint64_t spin_epoch = 0;
  bool in_op = false, op_lockfree = false;
  uint64_t op_steps = 0;
  uint8_t alloc_tag = TAG_DEFAULT;
  bool race_ignore = false;
  int prio = 0; // PCT
  VC cur{}, acq{}, rel{};
  bool joined = true; // slot reusable
};

struct Sched {
  Thr thr[MAXT];
  int cur = 0;
  int nthreads = 1;
  uint64_t step = 0;
  uint64_t write_epoch = 0;
  uint64_t last_write_step = 0;
  uint64_t last_progress_step = 0; // last operation boundary (op_begin/op_end) of any thread
  bool concurrent = false;
  // generation
  Rng rs{0}, rprog{0}, rrf{0}, rrnd{0};
  int strategy = 0;
  uint32_t quantum = 1;
  uint32_t est_len = 200;
  uint32_t chg[8];
  int nchg = 0;          // PCT change points / preemption points
  int stall_tid = -1;
  uint32_t stall_from = 0, stall_to = 0;
  uint32_t stale_pct = 0; // probability (percent) of a stale read in generation mode
  uint32_t spur_pm = 0;   // per mille spurious weak CAS failure
  // replay cursors
  uint32_t ri_sched = 0, ri_rf = 0, ri_rnd = 0, ri_spur = 0, ri_prog = 0;
  uint32_t n_rfpoints = 0, n_rnd = 0, n_weakcas = 0;
  // solo
  bool solo_active = false, solo_done = false, solo_rebased = false;
  int solo_tid = -1;
  uint64_t solo_steps = 0, solo_bound = 4000;
  uint32_t solo_at = ~0u;
  uint32_t solo_pick = 0;
  VC scv{};
  uint32_t spin_limit = 48;
  uint32_t weakW = 16;
  uint64_t seq_op_cap = 300000;
  uint64_t livelock_steps = 12000;
};
static Sched G;
static uintptr_t g_watch = 0; // debugging aid: --param watch=<address> prints every plain access to that word
static bool g_trace = false;  // debugging aid: --param trace=1 prints every atomic operation of a weak-mode case
static thread_local int t_tid = -1;

static bool replaying() { return g_shm->flags & F_REPLAY; }
static bool weak() { return g_shm->flags & F_WEAK; }

// ------------------------------------------------------------------------------------------------
// verdicts
// ------------------------------------------------------------------------------------------------
static void finish_traces() {
  g_shm->steps = G.step;
  g_shm->out.strategy = (uint32_t)G.strategy;
}

[[noreturn]] static void vfail(const char* kind, const char* fmt, va_list ap) {
  g_shm->verdict = V_VIOLATION;
  snprintf(g_shm->kind, sizeof g_shm->kind, "%s", kind);
  vsnprintf(g_shm->msg, sizeof g_shm->msg, fmt, ap);
  finish_traces();
  _exit(0);
}
[[noreturn]] void fail(const char* kind, const char* fmt, ...) {
  va_list ap;
  va_start(ap, fmt);
  vfail(kind, fmt, ap);
}
[[noreturn]] void inconclusive(const char* why) {
  g_shm->verdict = V_INCONCLUSIVE;
  snprintf(g_shm->kind, sizeof g_shm->kind, "%s", why);
  g_shm->msg[0] = 0;
  finish_traces();
  _exit(0);
}
[[noreturn]] void pass_now() {
  g_shm->verdict = V_PASS;
  finish_traces();
  _exit(0);
}

void label(const char* name) {
  Shm* s = g_shm;
  for (uint32_t i = 0; i < s->n_labels; ++i)
    if (strncmp(s->labels[i], name, sizeof s->labels[i] - 1) == 0) return;
  if (s->n_labels < MAX_LABELS) snprintf(s->labels[s->n_labels++], sizeof s->labels[0], "%s", name);
}
void nontrivial() { g_shm->nontrivial = 1; }
void count(const char* name, uint64_t n) {
  Shm* s = g_shm;
  for (uint32_t i = 0; i < s->n_counters; ++i)
    if (strncmp(s->counter_names[i], name, sizeof s->counter_names[i] - 1) == 0) {
      s->counters[i] += n;
      return;
    }
  if (s->n_counters < 16) {
    snprintf(s->counter_names[s->n_counters], sizeof s->counter_names[0], "%s", name);
    s->counters[s->n_counters++] = n;
  }
}
void fp(uint64_t h) { g_shm->fingerprint = mix(g_shm->fingerprint, h); }
bool want_desc() { return g_shm->flags & F_WANT_DESC; }
void desc(const char* fmt, ...) {
  if (!want_desc()) return;
  Shm* s = g_shm;
  if (s->desc_len + 2 >= MAX_DESC) return;
  va_list ap;
  va_start(ap, fmt);
  int k = vsnprintf(s->desc + s->desc_len, MAX_DESC - s->desc_len, fmt, ap);
  va_end(ap);
  if (k > 0) s->desc_len = (uint32_t)((s->desc_len + k < MAX_DESC - 1) ? s->desc_len + k : MAX_DESC - 1);
}
const char* prop() { return g_shm->prop; }
uint64_t param(const char* name, uint64_t dflt) {
  for (uint32_t i = 0; i < g_shm->n_params; ++i)
    if (strcmp(g_shm->params[i].name, name) == 0) return g_shm->params[i].val;
  return dflt;
}
bool weak_mode() { return weak(); }
bool solo_mode() { return g_shm->flags & F_SOLO; }

// ------------------------------------------------------------------------------------------------
// program choices
// ------------------------------------------------------------------------------------------------
uint32_t choose(uint32_t n) {
  if (n == 0) n = 1;
  Shm* s = g_shm;
  uint32_t v;
  if (replaying()) {
    v = G.ri_prog < s->in.n_prog ? s->in.prog[G.ri_prog] : 0;
    G.ri_prog++;
    v %= n;
  } else {
    v = G.rprog.below(n);
  }
  if (s->out.n_prog < MAX_PROG)
    s->out.prog[s->out.n_prog++] = v;
  else
    s->out.overflow = 1;
  return v;
}
uint32_t weighted(const uint32_t* w, uint32_t n) {
  uint32_t tot = 0;
  for (uint32_t i = 0; i < n; ++i) tot += w[i];
  if (tot == 0) return choose(n);
  // one draw in [0,tot), decoded; value 0 maps to the first option with non-zero weight
  uint32_t r = choose(tot);
  for (uint32_t i = 0; i < n; ++i) {
    if (r < w[i]) return i;
    r -= w[i];
  }
  return n - 1;
}

// ------------------------------------------------------------------------------------------------
// arena + shadow
// ------------------------------------------------------------------------------------------------
static constexpr uintptr_t A0 = 0x500000000000ull, A0_SIZE = 1ull << 29; // xenium + client nodes
static constexpr uintptr_t A1 = 0x510000000000ull, A1_SIZE = 1ull << 29; // harness bookkeeping
static constexpr uintptr_t SH0 = 0x520000000000ull, SH1 = 0x521000000000ull;
static constexpr uintptr_t CELLS = 0x530000000000ull;
enum : uint8_t { S_NONE = 0, S_FULL = 16, S_FREED = 0x80 };

struct BlkHdr {
  uint32_t size;
  uint32_t seq;
  uint8_t tag;
  uint8_t pad[7];
};
static_assert(sizeof(BlkHdr) == 16, "");

struct Arena {
  uintptr_t base, size, bump;
  uint8_t* shadow;
};
static Arena AR[2] = {{A0, A0_SIZE, A0, (uint8_t*)SH0}, {A1, A1_SIZE, A1, (uint8_t*)SH1}};
static size_t g_live_blocks[4], g_live_bytes[4];
static uint64_t g_alloc_count[4];
static uint32_t g_alloc_seq = 0;
static bool g_arena_mapped = false;

struct Cell { // race detector shadow for one 8-byte word of arena 0
  uint32_t w_clk;
  uint8_t w_tid;
  uint8_t w_mask;
  uint8_t r_mask[MAXT];
  uint32_t r_clk[MAXT];
};

static void map_fixed(uintptr_t at, size_t len) {
  void* p = mmap((void*)at, len, PROT_READ | PROT_WRITE, MAP_PRIVATE | MAP_ANONYMOUS | MAP_NORESERVE | MAP_FIXED_NOREPLACE, -1, 0);
  if (p != (void*)at) {
    fprintf(stderr, "vrt: cannot map arena at %p: %s\n", (void*)at, strerror(errno));
    _exit(97);
  }
}
void arena_map() { // called once in the parent, pages stay untouched there
  if (g_arena_mapped) return;
  map_fixed(A0, A0_SIZE);
  map_fixed(A1, A1_SIZE);
  map_fixed(SH0, A0_SIZE / 16);
  map_fixed(SH1, A1_SIZE / 16);
  map_fixed(CELLS, (A0_SIZE / 8) * sizeof(Cell));
  g_arena_mapped = true;
}

static inline int arena_of(uintptr_t x) {
  if (x - A0 < A0_SIZE) return 0;
  if (x - A1 < A1_SIZE) return 1;
  return -1;
}

static void race_free_block(uintptr_t p, size_t n);

// Address reuse (--param reuse=1, sequentially consistent cases only): instead of quarantining every freed block
// forever, a freed block of arena 0 is handed out again by the next allocation of the same (rounded) size, most
// recently freed first - what a thread-caching malloc does.  This makes ABA situations reachable (a pointer value
// that is re-published for a different object).  Use-after-free of a block is then only detected until it is reused,
// so jobs with reuse run next to, not instead of, the quarantine jobs.
static bool g_reuse = false;
static uint64_t g_reused_blocks = 0;
struct FreeList {
  uint32_t rsize, n;
  uintptr_t p[48];
};
static FreeList g_fl[48];
static FreeList* freelist_for(uint32_t rsize, bool create) {
  for (auto& f : g_fl) {
    if (f.rsize == rsize) return &f;
    if (f.rsize == 0) {
      if (!create) return nullptr;
      f.rsize = rsize;
      return &f;
    }
  }
  return nullptr;
}

static void* arena_alloc(size_t size, size_t align) {
  uint8_t tag = t_tid >= 0 ? G.thr[t_tid].alloc_tag : TAG_DEFAULT;
  Arena& a = AR[tag == TAG_HARNESS ? 1 : 0];
  if (align < 16) align = 16;
  if (size == 0) size = 1;
  if (g_reuse && tag != TAG_HARNESS && align == 16) {
    FreeList* f = freelist_for((uint32_t)((size + 15) & ~(size_t)15), false);
    if (f && f->n) {
      uintptr_t p = f->p[--f->n];
      BlkHdr* h = (BlkHdr*)(p - 16);
      h->size = (uint32_t)size;
      h->seq = ++g_alloc_seq;
      h->tag = tag;
      uint8_t* sh = a.shadow + ((p - a.base) >> 4);
      size_t full = size >> 4;
      memset(sh, S_FULL, full);
      if (size & 15) sh[full] = (uint8_t)(size & 15);
      g_live_blocks[tag & 3]++;
      g_alloc_count[tag & 3]++;
      g_live_bytes[tag & 3] += size;
      g_reused_blocks++;
      return (void*)p;
    }
  }
  uintptr_t p = (a.bump + 16 + align - 1) & ~(uintptr_t)(align - 1);
  uintptr_t end = (p + size + 15) & ~(uintptr_t)15;
  if (end + 16 > a.base + a.size) inconclusive("arena_exhausted");
  a.bump = end; // the next header granule acts as red zone
  BlkHdr* h = (BlkHdr*)(p - 16);
  h->size = (uint32_t)size;
  h->seq = ++g_alloc_seq;
  h->tag = tag;
  uint8_t* sh = a.shadow + ((p - a.base) >> 4);
  size_t full = size >> 4;
  memset(sh, S_FULL, full);
  if (size & 15) sh[full] = (uint8_t)(size & 15);
  g_live_blocks[tag & 3]++;
  g_alloc_count[tag & 3]++;
  g_live_bytes[tag & 3] += size;
  return (void*)p;
}

static void arena_free(void* ptr) {
  uintptr_t p = (uintptr_t)ptr;
  int ai = arena_of(p);
  Arena& a = AR[ai];
  uint8_t* sh = a.shadow + ((p - a.base) >> 4);
  if ((p & 15) || p < a.base + 16) fail("invalid_free", "operator delete of %p which is not a block start", ptr);
  if (*sh == S_FREED) fail("double_free", "operator delete of already freed block %p", ptr);
  BlkHdr* h = (BlkHdr*)(p - 16);
  if (*sh == S_NONE || sh[-1] != S_NONE || h->seq == 0 || h->seq > g_alloc_seq)
    fail("invalid_free", "operator delete of %p which is not a block start", ptr);
  size_t size = h->size;
  if (ai == 0 && weak()) race_free_block(p, size);
  memset(sh, S_FREED, (size + 15) >> 4);
  memset(ptr, 0xDD, size);
  g_live_blocks[h->tag & 3]--;
  g_live_bytes[h->tag & 3] -= size;
  if (g_reuse && ai == 0) {
    FreeList* f = freelist_for((uint32_t)((size + 15) & ~(size_t)15), true);
    if (f && f->n < 48) f->p[f->n++] = p;
  }
}

static const char* describe_block(uintptr_t x, char* buf, size_t n) {
  // find the block start by walking back over the shadow
  int ai = arena_of(x);
  if (ai < 0) return "";
  Arena& a = AR[ai];
  uintptr_t g = (x - a.base) >> 4;
  uintptr_t lim = g > 4096 ? g - 4096 : 1;
  while (g > lim && a.shadow[g - 1] != S_NONE) --g;
  BlkHdr* h = (BlkHdr*)(a.base + (g << 4) - 16);
  snprintf(buf, n, "block#%u size=%u tag=%u offset=%ld", h->seq, h->size, h->tag, (long)(x - (a.base + (g << 4))));
  return buf;
}

static inline void shadow_check(uintptr_t x, size_t n, bool write, const char* what) {
  int ai = arena_of(x);
  if (ai < 0) return;
  Arena& a = AR[ai];
  uintptr_t off = x - a.base;
  uint8_t s = a.shadow[off >> 4];
  if (__builtin_expect(s == S_FULL && ((off & 15) + n <= 16), 1)) return;
  for (uintptr_t o = off; o < off + n;) {
    uint8_t st = a.shadow[o >> 4];
    uintptr_t in = o & 15;
    uintptr_t chunk = 16 - in;
    if (chunk > off + n - o) chunk = off + n - o;
    if (st == S_FREED) {
      char b[96];
      fail("use_after_free", "%s %s of %zu bytes at %p in freed %s by thread %d", what, write ? "write" : "read", n, (void*)x,
           describe_block(a.base + o, b, sizeof b), t_tid);
    }
    if (st != S_FULL && in + chunk > st) {
      fail("heap_out_of_bounds", "%s %s of %zu bytes at %p outside any live block (thread %d)", what, write ? "write" : "read", n,
           (void*)x, t_tid);
    }
    o += chunk;
  }
}

uint8_t set_alloc_tag(uint8_t tag) {
  if (t_tid < 0) return TAG_DEFAULT;
  uint8_t p = G.thr[t_tid].alloc_tag;
  G.thr[t_tid].alloc_tag = tag;
  return p;
}
size_t live_blocks(uint8_t tag) { return g_live_blocks[tag & 3]; }
size_t live_bytes(uint8_t tag) { return g_live_bytes[tag & 3]; }
uint64_t alloc_count(uint8_t tag) { return g_alloc_count[tag & 3]; }
uint64_t reused_blocks() { return g_reused_blocks; }
bool is_live(const void* p) {
  uintptr_t x = (uintptr_t)p;
  int ai = arena_of(x);
  if (ai < 0) return false;
  uint8_t s = AR[ai].shadow[(x - AR[ai].base) >> 4];
  return s != S_NONE && s != S_FREED;
}
bool is_freed(const void* p) {
  uintptr_t x = (uintptr_t)p;
  int ai = arena_of(x);
  return ai >= 0 && AR[ai].shadow[(x - AR[ai].base) >> 4] == S_FREED;
}
void race_ignore(bool on) {
  if (t_tid >= 0) G.thr[t_tid].race_ignore = on;
}

// ------------------------------------------------------------------------------------------------
// scheduler
// ------------------------------------------------------------------------------------------------
static void record(Pair* arr, uint32_t& n, uint32_t max, uint32_t at, uint32_t val) {
  if (n < max)
    arr[n++] = Pair{at, val};
  else
    g_shm->out.overflow = 1;
}

static bool runnable(int t) { return G.thr[t].state == T_RUNNABLE; }
static bool spinning(int t) {
  Thr& x = G.thr[t];
  return x.spin >= G.spin_limit && x.spin_epoch == G.write_epoch;
}
static bool eligible(int t) { return runnable(t) && !spinning(t); }

static int default_next() {
  int c = G.cur;
  if (eligible(c)) return c;
  for (int i = 1; i <= MAXT; ++i) {
    int t = (c + i) % MAXT;
    if (eligible(t)) return t;
  }
  // everybody left is spinning: rotate among runnable threads so that each gets to re-check
  for (int i = 1; i <= MAXT; ++i) {
    int t = (c + i) % MAXT;
    if (runnable(t)) return t;
  }
  return -1;
}

static int pick_random_eligible(int except) {
  int cand[MAXT], n = 0;
  for (int t = 0; t < MAXT; ++t)
    if (eligible(t) && t != except) cand[n++] = t;
  if (!n) return -1;
  return cand[G.rs.below((uint32_t)n)];
}

static int strategy_pick(int dflt) {
  switch (G.strategy) {
  case 0: { // uniform random walk
    int t = pick_random_eligible(-1);
    return t < 0 ? dflt : t;
  }
  case 1: { // random quantum
    if (G.rs.below(G.quantum) != 0) return dflt;
    int t = pick_random_eligible(G.cur);
    return t < 0 ? dflt : t;
  }
  case 2: { // PCT
    for (int i = 0; i < G.nchg; ++i)
      if (G.chg[i] == G.step) G.thr[G.cur].prio = -(int)(i + 1);
    int best = -1;
    for (int t = 0; t < MAXT; ++t)
      if (eligible(t) && (best < 0 || G.thr[t].prio > G.thr[best].prio)) best = t;
    return best < 0 ? dflt : best;
  }
  case 3: { // long stall of one thread, others run with a random quantum
    bool stalled = G.step >= G.stall_from && G.step < G.stall_to;
    int others = 0;
    for (int t = 0; t < MAXT; ++t)
      if (eligible(t) && t != G.stall_tid) others++;
    if (stalled && others == 0) stalled = false;
    int pick = dflt;
    if (G.rs.below(G.quantum) == 0) {
      int t = pick_random_eligible(G.cur);
      if (t >= 0) pick = t;
    }
    if (stalled && pick == G.stall_tid) {
      int t = pick_random_eligible(G.stall_tid);
      if (t >= 0) pick = t;
    }
    return pick;
  }
  default: { // 4: non-preemptive + k preemptions
    for (int i = 0; i < G.nchg; ++i)
      if (G.chg[i] == G.step) {
        int t = pick_random_eligible(G.cur);
        if (t >= 0) return t;
      }
    return dflt;
  }
  }
}

static void wake(int t) {
  G.thr[t].go.store(1, std::memory_order_release);
  futex(&G.thr[t].go, FUTEX_WAKE_PRIVATE, 1);
}
static void park(int me) {
  Thr& t = G.thr[me];
  while (t.go.load(std::memory_order_acquire) == 0) futex(&t.go, FUTEX_WAIT_PRIVATE, 0);
  t.go.store(0, std::memory_order_relaxed);
}
static void switch_to(int next) {
  int me = G.cur;
  G.cur = next;
  g_shm->switches++;
  wake(next);
  park(me);
}

[[noreturn]] static void deadlock() {
  char buf[200];
  int k = 0;
  for (int t = 0; t < MAXT; ++t)
    if (G.thr[t].state != T_NONE && G.thr[t].state != T_FINISHED)
      k += snprintf(buf + k, sizeof buf - k, " t%d:%s", t,
                    G.thr[t].state == T_BLOCKED_JOIN ? "join" : G.thr[t].state == T_BLOCKED_MUTEX ? "mutex" : "spin");
  fail("deadlock", "no thread can make progress:%s", buf);
}

static int decide(bool must_leave) {
  int dflt = default_next();
  if (must_leave && dflt == G.cur) dflt = -1;
  if (dflt < 0) {
    // current thread is blocked/finished: find any runnable thread
    for (int i = 1; i <= MAXT; ++i) {
      int t = (G.cur + i) % MAXT;
      if (runnable(t) && !(must_leave && t == G.cur)) {
        dflt = t;
        break;
      }
    }
    if (dflt < 0) deadlock();
  }
  int next = dflt;
  Shm* s = g_shm;
  if (G.solo_active) return runnable(G.solo_tid) ? G.solo_tid : dflt;
  if (replaying()) {
    while (G.ri_sched < s->in.n_sched && s->in.sched[G.ri_sched].at < G.step) G.ri_sched++;
    if (G.ri_sched < s->in.n_sched && s->in.sched[G.ri_sched].at == G.step) {
      int cand = (int)s->in.sched[G.ri_sched].val;
      G.ri_sched++;
      if (cand >= 0 && cand < MAXT && runnable(cand) && !(must_leave && cand == G.cur)) next = cand;
    }
  } else {
    int cand = strategy_pick(dflt);
    if (cand >= 0 && runnable(cand) && !(must_leave && cand == G.cur)) next = cand;
  }
  if (next != dflt) record(s->out.sched, s->out.n_sched, MAX_SCHED, (uint32_t)G.step, (uint32_t)next);
  return next;
}

static void solo_maybe_start() {
  if (!(g_shm->flags & F_SOLO) || G.solo_active || G.solo_done) return;
  if (G.step < G.solo_at) return;
  // candidates: runnable threads that are inside a lock-free operation, or between operations
  int cand[MAXT], n = 0;
  int others_inside = 0;
  for (int t = 0; t < MAXT; ++t) {
    if (!runnable(t)) continue;
    Thr& x = G.thr[t];
    if (x.in_op && !x.op_lockfree) continue;
    cand[n++] = t;
  }
  if (n == 0) return; // try again at the next step
  int v;
  if (replaying())
    v = (int)(g_shm->in.solo_tid % MAXT);
  else
    v = cand[G.solo_pick % (uint32_t)n];
  if (!runnable(v) || (G.thr[v].in_op && !G.thr[v].op_lockfree)) v = cand[0];
  for (int t = 0; t < MAXT; ++t)
    if (t != v && G.thr[t].state != T_NONE && G.thr[t].state != T_FINISHED && G.thr[t].in_op) others_inside++;
  G.solo_active = true;
  G.solo_tid = v;
  G.solo_steps = 0;
  g_shm->out.solo_at = (uint32_t)G.step;
  g_shm->out.solo_tid = (uint32_t)v;
  if (others_inside) {
    nontrivial();
    label("solo:others_inside_op");
  }
  label(G.thr[v].in_op ? "solo:victim_mid_op" : "solo:victim_between_ops");
}

static void sched_point_ex(bool is_spin) {
  if (!g_active || t_tid < 0) return;
  Thr& me = G.thr[G.cur];
  me.steps++;
  G.step++;
  if (me.in_op) me.op_steps++;
  if (is_spin) {
    if (me.spin_epoch != G.write_epoch) {
      me.spin_epoch = G.write_epoch;
      me.spin = 0;
    }
    me.spin++;
  }
  if (G.solo_active && G.cur == G.solo_tid) {
    if (++G.solo_steps > G.solo_bound)
      fail("solo_steps", "thread %d running alone did not finish its lock-free operation within %lu of its own steps", G.cur,
           (unsigned long)G.solo_bound);
  }
  if (G.step > g_shm->step_cap) {
    int alive = 0;
    for (int t = 0; t < MAXT; ++t)
      if (G.thr[t].state != T_NONE && G.thr[t].state != T_FINISHED) alive++;
    if (alive == 1 && !G.concurrent) fail("hang", "single-threaded execution exceeded %u steps", g_shm->step_cap);
    inconclusive("step_cap");
  }
  if (!G.concurrent && me.in_op && me.op_steps > G.seq_op_cap) {
    int alive = 0;
    for (int t = 0; t < MAXT; ++t)
      if (G.thr[t].state != T_NONE && G.thr[t].state != T_FINISHED) alive++;
    if (alive == 1) fail("hang", "one operation of a single-threaded execution exceeded %lu steps", (unsigned long)G.seq_op_cap);
  }
  if (G.step - (G.last_write_step > G.last_progress_step ? G.last_write_step : G.last_progress_step) > G.livelock_steps + 4 * (uint64_t)G.weakW) {
    // nobody changed shared state for a very long time although somebody was always scheduled
    int alive = 0;
    for (int t = 0; t < MAXT; ++t)
      if (G.thr[t].state != T_NONE && G.thr[t].state != T_FINISHED) alive++;
    if (alive >= 2) { // a single thread is covered by the per-operation step cap (hang)
      bool all_spin = true;
      for (int t = 0; t < MAXT; ++t)
        if (runnable(t) && !spinning(t)) all_spin = false;
      if (all_spin) fail("livelock", "all runnable threads spin without any store for %lu steps", (unsigned long)(G.step - G.last_write_step));
    }
  }
  solo_maybe_start();
  int next = decide(false);
  if (next != G.cur) switch_to(next);
}
static void sched_point() { sched_point_ex(false); }

static void note_write() {
  G.write_epoch++;
  G.last_write_step = G.step;
  G.thr[G.cur].spin = 0;
}

void point() { sched_point(); }
uint64_t now() { return G.step; }
int self() { return t_tid; }
uint64_t my_steps() { return t_tid >= 0 ? G.thr[t_tid].steps : 0; }
void concurrent_phase(bool on) {
  if (on && !G.concurrent && (g_shm->flags & F_SOLO) && !G.solo_active && !G.solo_done && !G.solo_rebased) {
    // solo mode: the switch step is counted from the start of the concurrent part (the prefix has no other threads)
    G.solo_at += (uint32_t)G.step;
    G.solo_rebased = true;
  }
  G.concurrent = on;
}

void op_begin(int lockfree) {
  if (t_tid < 0) return;
  Thr& me = G.thr[t_tid];
  if (G.solo_active && G.solo_tid == t_tid && !lockfree) {
    label("solo:next_op_blocking");
    pass_now();
  }
  me.in_op = true;
  me.op_lockfree = lockfree != 0;
  me.op_steps = 0;
  G.last_progress_step = G.step;
}
void op_end() {
  if (t_tid < 0) return;
  Thr& me = G.thr[t_tid];
  me.in_op = false;
  G.last_progress_step = G.step;
  if (G.solo_active && G.solo_tid == t_tid) {
    // the victim finished the operation it ran alone
    g_shm->verdict = V_PASS;
    char b[40];
    snprintf(b, sizeof b, "solo:steps<=%lu", (unsigned long)(G.solo_steps <= 10 ? 10 : G.solo_steps <= 100 ? 100 : G.solo_steps <= 1000 ? 1000 : 100000));
    label(b);
    pass_now();
  }
}

static uint64_t g_stamp_seq = 0;
void stamp(Stamp* s) {
  // stamps are totally ordered (one thread runs at a time): a strictly increasing sequence number is the
  // real-time order of invocations and responses, also for consecutive operations without a scheduling point
  s->step = ++g_stamp_seq;
  if (t_tid >= 0) {
    Thr& me = G.thr[t_tid];
    memcpy(s->vc, me.cur.c, sizeof s->vc);
    me.cur.c[t_tid]++;
  } else {
    memset(s->vc, 0, sizeof s->vc);
  }
}
bool hb(const Stamp& a, int a_tid, const Stamp& b) {
  if (!weak()) return a.step < b.step;
  return b.vc[a_tid] > a.vc[a_tid];
}

// ---- threads -----------------------------------------------------------------------------------
struct Sentinel {
  int tid = -1;
  ~Sentinel();
};

static void thread_finish(int tid) {
  Thr& me = G.thr[tid];
  if (G.solo_active && G.solo_tid == tid) {
    label("solo:victim_exited");
    pass_now();
  }
  me.state = T_FINISHED;
  me.in_op = false;
  note_write();
  for (int t = 0; t < MAXT; ++t)
    if (G.thr[t].state == T_BLOCKED_JOIN && G.thr[t].wait_tid == tid) G.thr[t].state = T_RUNNABLE;
  G.step++;
  int next = decide(true);
  G.cur = next;
  g_shm->switches++;
  wake(next);
}
Sentinel::~Sentinel() {
  if (tid >= 0) thread_finish(tid);
}

static void* tramp(void* p) {
  int tid = (int)(intptr_t)p;
  t_tid = tid;
  park(tid);
  static thread_local Sentinel sentinel; // constructed first => destroyed last
  sentinel.tid = tid;
  Thr& me = G.thr[tid];
  me.fn(me.arg);
  return nullptr;
}

int spawn(thread_fn fn, void* arg) {
  int tid = -1;
  for (int t = 1; t < MAXT; ++t)
    if (G.thr[t].state == T_NONE || (G.thr[t].state == T_FINISHED && G.thr[t].joined)) {
      tid = t;
      break;
    }
  if (tid < 0) fail("harness_error", "too many live threads");
  Thr& c = G.thr[tid];
  Thr& me = G.thr[t_tid];
  uint32_t oldclk = c.cur.c[tid];
  c.go.store(0);
  c.state = T_RUNNABLE;
  c.joined = false;
  c.fn = fn;
  c.arg = arg;
  c.steps = 0;
  c.spin = 0;
  c.in_op = false;
  c.alloc_tag = TAG_DEFAULT;
  c.race_ignore = false;
  c.prio = (int)G.rs.below(1000) + 10;
  c.cur = me.cur;
  if (c.cur.c[tid] < oldclk) c.cur.c[tid] = oldclk;
  c.cur.c[tid]++;
  c.acq = c.cur;
  c.rel = c.cur;
  me.cur.c[t_tid]++;
  G.nthreads++;
  pthread_attr_t at;
  pthread_attr_init(&at);
  pthread_attr_setstacksize(&at, 512 * 1024);
  if (pthread_create(&c.pt, &at, tramp, (void*)(intptr_t)tid) != 0) inconclusive("pthread_create");
  pthread_attr_destroy(&at);
  note_write();
  sched_point();
  return tid;
}

void join(int tid) {
  sched_point();
  Thr& me = G.thr[t_tid];
  Thr& c = G.thr[tid];
  if (c.state != T_FINISHED) {
    if (G.solo_active && G.solo_tid == t_tid) {
      label("solo:victim_blocked");
      pass_now();
    }
    me.state = T_BLOCKED_JOIN;
    me.wait_tid = tid;
    G.step++;
    int next = decide(true);
    switch_to(next);
  }
  pthread_join(c.pt, nullptr);
  c.joined = true;
  me.cur.join(c.cur);
  me.acq.join(c.cur);
  G.nthreads--;
}
int live_threads() {
  int n = 0;
  for (int t = 1; t < MAXT; ++t)
    if (G.thr[t].state != T_NONE && G.thr[t].state != T_FINISHED) n++;
  return n;
}

// ---- mutex ---------------------------------------------------------------------------------------
struct MState {
  void* addr;
  int owner;
  VC view;
};
static MState g_mutexes[16];
static MState* mutex_of(void* m) {
  for (auto& x : g_mutexes)
    if (x.addr == m) return &x;
  for (auto& x : g_mutexes)
    if (x.addr == nullptr) {
      x.addr = m;
      x.owner = -1;
      memset(&x.view, 0, sizeof x.view);
      return &x;
    }
  fail("harness_error", "too many mutexes");
}

} // namespace vrt

using namespace vrt;

extern "C" void vrt_mutex_lock(void* m) {
  if (!g_active || t_tid < 0) return;
  sched_point();
  MState* s = mutex_of(m);
  while (s->owner >= 0) {
    Thr& me = G.thr[t_tid];
    if (G.solo_active && G.solo_tid == t_tid) {
      label("solo:victim_blocked");
      pass_now();
    }
    me.state = T_BLOCKED_MUTEX;
    me.wait_mutex = m;
    G.step++;
    int next = decide(true);
    switch_to(next);
  }
  s->owner = t_tid;
  G.thr[t_tid].cur.join(s->view);
  G.thr[t_tid].acq.join(s->view);
  note_write();
}
extern "C" int vrt_mutex_trylock(void* m) {
  if (!g_active || t_tid < 0) return 1;
  sched_point();
  MState* s = mutex_of(m);
  if (s->owner >= 0) return 0;
  s->owner = t_tid;
  G.thr[t_tid].cur.join(s->view);
  note_write();
  return 1;
}
extern "C" void vrt_mutex_unlock(void* m) {
  if (!g_active || t_tid < 0) return;
  sched_point();
  MState* s = mutex_of(m);
  s->owner = -1;
  s->view = G.thr[t_tid].cur;
  G.thr[t_tid].cur.c[t_tid]++;
  for (int t = 0; t < MAXT; ++t)
    if (G.thr[t].state == T_BLOCKED_MUTEX && G.thr[t].wait_mutex == m) G.thr[t].state = T_RUNNABLE;
  note_write();
}
extern "C" void vrt_yield() {
  if (!g_active || t_tid < 0) return;
  Thr& me = G.thr[t_tid];
  me.spin_epoch = G.write_epoch;
  me.spin = G.spin_limit; // a yielding thread waits for somebody else
  sched_point_ex(false);
}

extern "C" uint64_t vrt_random() {
  if (!g_active || t_tid < 0) return 0;
  sched_point();
  Shm* s = g_shm;
  uint32_t idx = G.n_rnd++;
  uint64_t v = 0;
  if (replaying()) {
    while (G.ri_rnd < s->in.n_rnd && s->in.rnd[G.ri_rnd].at < idx) G.ri_rnd++;
    if (G.ri_rnd < s->in.n_rnd && s->in.rnd[G.ri_rnd].at == idx) v = s->in.rnd[G.ri_rnd++].val;
  } else {
    // small values mostly (start slot of a k-segment scan), sometimes large
    uint32_t r = G.rrnd.below(10);
    v = r < 3 ? 0 : r < 9 ? G.rrnd.below(8) : G.rrnd.below(1u << 20);
  }
  if (v) record(s->out.rnd, s->out.n_rnd, MAX_RND, idx, (uint32_t)v);
  return v;
}

// ------------------------------------------------------------------------------------------------
// weak memory model
// ------------------------------------------------------------------------------------------------
namespace vrt {

struct Msg {
  uint8_t val[16];
  VC view;
  uint64_t step; // when written
  uint32_t ts;
  uint8_t writer;
};
struct Seen {
  uint32_t ev, ts;
};
struct Loc {
  uintptr_t addr;
  uint8_t sz;
  uint32_t next_ts;
  MVec<Msg> hist;
  MVec<Seen> seen[MAXT];
};
static Loc** g_loctab = nullptr;
static uint32_t g_loccap = 0, g_locn = 0;

static Loc* loc_find(uintptr_t a, bool create) {
  if (!g_loctab) {
    g_loccap = 1 << 12;
    g_loctab = (Loc**)calloc(g_loccap, sizeof(Loc*));
  }
  uint32_t h = (uint32_t)((a * 0x9e3779b97f4a7c15ull) >> 40) & (g_loccap - 1);
  while (g_loctab[h]) {
    if (g_loctab[h]->addr == a) return g_loctab[h];
    h = (h + 1) & (g_loccap - 1);
  }
  if (!create) return nullptr;
  if (g_locn * 2 > g_loccap) {
    Loc** old = g_loctab;
    uint32_t oc = g_loccap;
    g_loccap *= 2;
    g_loctab = (Loc**)calloc(g_loccap, sizeof(Loc*));
    for (uint32_t i = 0; i < oc; ++i)
      if (old[i]) {
        uint32_t k = (uint32_t)((old[i]->addr * 0x9e3779b97f4a7c15ull) >> 40) & (g_loccap - 1);
        while (g_loctab[k]) k = (k + 1) & (g_loccap - 1);
        g_loctab[k] = old[i];
      }
    free(old);
    return loc_find(a, true);
  }
  Loc* l = (Loc*)calloc(1, sizeof(Loc));
  l->addr = a;
  g_loctab[h] = l;
  g_locn++;
  return l;
}

static void loc_reset(Loc* l, uintptr_t a, unsigned sz) {
  // (re-)initialised by a plain write (constructor): one initial message visible to everybody
  l->sz = (uint8_t)sz;
  l->hist.n = 0;
  for (auto& s : l->seen) s.n = 0;
  Msg m{};
  memcpy(m.val, (void*)a, sz);
  m.step = 0;
  m.ts = l->next_ts++;
  m.writer = 0xff;
  l->hist.push(m);
}

static Loc* loc_get(uintptr_t a, unsigned sz) {
  Loc* l = loc_find(a, true);
  if (l->hist.n == 0 || l->sz != sz || memcmp(l->hist.back().val, (void*)a, sz) != 0) loc_reset(l, a, sz);
  return l;
}

static uint32_t seen_upto(Loc* l, int u, uint32_t ev) {
  MVec<Seen>& s = l->seen[u];
  for (uint32_t i = s.n; i-- > 0;)
    if (s[i].ev <= ev) return s[i].ts;
  return 0;
}
static void seen_add(Loc* l, int t, uint32_t ev, uint32_t ts) {
  MVec<Seen>& s = l->seen[t];
  if (s.n && s.back().ts >= ts) return;
  if (s.n > 64) s.erase_front(32);
  s.push(Seen{ev, ts});
}

static inline bool mo_acq(int mo) { return mo == 1 || mo == 2 || mo == 4 || mo == 5; }
static inline bool mo_rel(int mo) { return mo == 3 || mo == 4 || mo == 5; }

static void sc_pre(Thr& me) { me.cur.join(G.scv); }
static void sc_post(Thr& me) { G.scv.join(me.cur); }

static void weak_load(uintptr_t a, unsigned sz, int mo, void* out) {
  Thr& me = G.thr[t_tid];
  if (mo == 5) sc_pre(me);
  Loc* l = loc_get(a, sz);
  uint32_t lb = 0;
  for (int u = 0; u < MAXT; ++u) {
    uint32_t s = seen_upto(l, u, me.cur.c[u]);
    if (s > lb) lb = s;
  }
  // eligible messages: from the newest backwards while ts >= lb and overwritten at most W steps ago
  uint32_t n = l->hist.n;
  uint32_t back_max = 0;
  while (back_max + 1 < n) {
    Msg& cand = l->hist[n - 2 - back_max];
    Msg& over = l->hist[n - 1 - back_max];
    if (cand.ts < lb) break;
    if (over.step + G.weakW < G.step) break;
    back_max++;
  }
  uint32_t back = 0;
  if (back_max > 0) {
    Shm* s = g_shm;
    uint32_t idx = G.n_rfpoints++;
    if (replaying()) {
      while (G.ri_rf < s->in.n_rf && s->in.rf[G.ri_rf].at < idx) G.ri_rf++;
      if (G.ri_rf < s->in.n_rf && s->in.rf[G.ri_rf].at == idx) back = s->in.rf[G.ri_rf++].val;
      if (back > back_max) back = back_max;
    } else if (G.rrf.below(100) < G.stale_pct) {
      back = 1 + G.rrf.below(back_max);
    }
    if (back) {
      record(s->out.rf, s->out.n_rf, MAX_RF, idx, back);
      s->stale_reads++;
    }
  }
  Msg& m = l->hist[n - 1 - back];
  memcpy(out, m.val, sz);
  if (g_trace) {
    uint64_t v = 0;
    memcpy(&v, m.val, sz < 8 ? sz : 8);
    fprintf(stderr, "T%d step %lu load  %p mo=%d -> %lx (ts %u of %u, back %u, lb %u, writer %d)\n", t_tid, (unsigned long)G.step, (void*)a, mo, (unsigned long)v, m.ts,
            l->next_ts - 1, back, lb, (int)(signed char)m.writer);
  }
  seen_add(l, t_tid, me.cur.c[t_tid], m.ts);
  me.acq.join(m.view);
  if (mo_acq(mo)) me.cur.join(m.view);
  me.cur.c[t_tid]++;
  if (mo == 5) sc_post(me);
  // prune messages nobody can read any more
  if (l->hist.n > 24) l->hist.erase_front(l->hist.n - 12);
}

static void weak_store_msg(Loc* l, uintptr_t a, unsigned sz, int mo, const void* val, const VC* rs_view) {
  Thr& me = G.thr[t_tid];
  Msg m{};
  memcpy(m.val, val, sz);
  m.view = mo_rel(mo) ? me.cur : me.rel;
  if (rs_view) m.view.join(*rs_view);
  if (l->hist.n && l->hist.back().writer == t_tid) m.view.join(l->hist.back().view); // C++11 same-thread release sequence
  m.step = G.step;
  m.ts = l->next_ts++;
  m.writer = (uint8_t)t_tid;
  if (g_trace) {
    uint64_t v = 0;
    memcpy(&v, val, sz < 8 ? sz : 8);
    fprintf(stderr, "T%d step %lu store %p mo=%d <- %lx (ts %u)%s view[%u %u %u %u %u]\n", t_tid, (unsigned long)G.step, (void*)a, mo, (unsigned long)v, m.ts,
            rs_view ? " rmw" : "", m.view.c[0], m.view.c[1], m.view.c[2], m.view.c[3], m.view.c[4]);
  }
  l->hist.push(m);
  memcpy((void*)a, val, sz);
  seen_add(l, t_tid, me.cur.c[t_tid], m.ts);
  me.cur.c[t_tid]++;
}

static void weak_store(uintptr_t a, unsigned sz, int mo, const void* val) {
  Thr& me = G.thr[t_tid];
  if (mo == 5) sc_pre(me);
  Loc* l = loc_get(a, sz);
  weak_store_msg(l, a, sz, mo, val, nullptr);
  if (mo == 5) sc_post(me);
}

// read part of an RMW: always the newest message
static Msg& weak_rmw_read(Loc* l, int mo) {
  Thr& me = G.thr[t_tid];
  Msg& m = l->hist.back();
  seen_add(l, t_tid, me.cur.c[t_tid], m.ts);
  me.acq.join(m.view);
  if (mo_acq(mo)) me.cur.join(m.view);
  return m;
}

static void weak_fence(int mo) {
  Thr& me = G.thr[t_tid];
  if (g_trace) fprintf(stderr, "T%d step %lu fence mo=%d\n", t_tid, (unsigned long)G.step, mo);
  if (mo == 2 || mo == 1 || mo == 4 || mo == 5) me.cur.join(me.acq);
  if (mo == 5) {
    me.cur.join(G.scv);
    G.scv = me.cur;
  }
  if (mo == 3 || mo == 4 || mo == 5) me.rel = me.cur;
  me.cur.c[t_tid]++;
}

// ---- race detector -----------------------------------------------------------------------------
static inline Cell* cell_of(uintptr_t x) { return (Cell*)CELLS + ((x - A0) >> 3); }

[[noreturn]] static void race_report(uintptr_t x, size_t n, bool write, int other, bool other_write) {
  char b[96];
  fail("data_race", "%s of %zu bytes at %p (%s) by thread %d is not ordered by happens-before with a previous %s by thread %d",
       write ? "write" : "read", n, (void*)x, describe_block(x, b, sizeof b), t_tid, other_write ? "write" : "read", other);
}

static void race_access(uintptr_t x, size_t n, bool write, bool is_free = false) {
  Thr& me = G.thr[t_tid];
  if (me.race_ignore) return;
  uintptr_t end = x + n;
  for (uintptr_t w = x & ~(uintptr_t)7; w < end; w += 8) {
    Cell* c = cell_of(w);
    uintptr_t lo = x > w ? x - w : 0, hi = end < w + 8 ? end - w : 8;
    uint8_t mask = (uint8_t)(((1u << (hi - lo)) - 1) << lo);
    if (c->w_mask & mask) {
      if (c->w_tid != t_tid && c->w_clk > me.cur.c[c->w_tid]) race_report(x, n, write || is_free, c->w_tid, true);
    }
    if (write) {
      for (int u = 0; u < MAXT; ++u)
        if (u != t_tid && (c->r_mask[u] & mask) && c->r_clk[u] > me.cur.c[u]) race_report(x, n, true, u, false);
      c->w_tid = (uint8_t)t_tid;
      c->w_clk = me.cur.c[t_tid];
      c->w_mask = mask;
      memset(c->r_mask, 0, sizeof c->r_mask);
    } else {
      if (c->r_clk[t_tid] != me.cur.c[t_tid]) {
        c->r_clk[t_tid] = me.cur.c[t_tid];
        c->r_mask[t_tid] = mask;
      } else {
        c->r_mask[t_tid] |= mask;
      }
    }
  }
}
static void race_free_block(uintptr_t p, size_t n) {
  if (t_tid < 0) return;
  race_access(p, n, true, true);
}

void check_access(const void* p, size_t n, bool write) {
  if (!g_active) return;
  uintptr_t x = (uintptr_t)p;
  shadow_check(x, n, write, "harness");
  if (weak() && x - A0 < A0_SIZE && t_tid >= 0) race_access(x, n, write);
}

static void watch_print(const char* what, uintptr_t x, size_t n) {
  Thr& me = G.thr[t_tid < 0 ? 0 : t_tid];
  fprintf(stderr, "watch: step %lu thread %d %s %zu bytes at %p clock [%u %u %u %u %u]\n", (unsigned long)G.step, t_tid, what, n, (void*)x, me.cur.c[0], me.cur.c[1],
          me.cur.c[2], me.cur.c[3], me.cur.c[4]);
}
static inline void plain_access(void* p, size_t n, bool write) {
  if (!g_active) return;
  uintptr_t x = (uintptr_t)p;
  if (g_watch && x <= g_watch && g_watch < x + n) watch_print(write ? "plain write" : "plain read", x, n);
  if (x - A0 < A0_SIZE) {
    shadow_check(x, n, write, "plain");
    if (t_tid < 0) return;
    if (g_shm->flags & F_PLAIN_POINTS) sched_point();
    if (weak()) race_access(x, n, write);
  } else if (x - A1 < A1_SIZE) {
    shadow_check(x, n, write, "plain");
  }
}

} // namespace vrt

// ------------------------------------------------------------------------------------------------
// atomic operations
// ------------------------------------------------------------------------------------------------
static inline bool atom_live() { return g_active && t_tid >= 0; }

static inline void real_copy(void* dst, const volatile void* src, unsigned sz) { memcpy(dst, (const void*)src, sz); }

// debugging aid (--param trace=1) for sequentially consistent cases: one line per atomic operation
static void sc_trace(const char* what, const volatile void* a, unsigned sz, const void* v1, const void* v2) {
  uint64_t x = 0, y = 0;
  memcpy(&x, v1, sz < 8 ? sz : 8);
  if (v2) memcpy(&y, v2, sz < 8 ? sz : 8);
  if (v2)
    fprintf(stderr, "T%d step %lu %s %p: %lx -> %lx\n", t_tid, (unsigned long)G.step, what, (void*)a, (unsigned long)x, (unsigned long)y);
  else
    fprintf(stderr, "T%d step %lu %s %p: %lx\n", t_tid, (unsigned long)G.step, what, (void*)a, (unsigned long)x);
}

extern "C" void vrt_atomic_load(const volatile void* a, unsigned sz, int mo, void* out) {
  if (!atom_live()) {
    real_copy(out, a, sz);
    return;
  }
  shadow_check((uintptr_t)a, sz, false, "atomic");
  sched_point_ex(true);
  if (weak())
    weak_load((uintptr_t)a, sz, mo, out);
  else {
    real_copy(out, a, sz);
    if (g_trace) sc_trace("load ", a, sz, out, nullptr);
  }
}

extern "C" void vrt_atomic_store(volatile void* a, unsigned sz, int mo, const void* val) {
  if (!atom_live()) {
    memcpy((void*)a, val, sz);
    return;
  }
  shadow_check((uintptr_t)a, sz, true, "atomic");
  sched_point();
  if (weak())
    weak_store((uintptr_t)a, sz, mo, val);
  else {
    memcpy((void*)a, val, sz);
    if (g_trace) sc_trace("store", a, sz, val, nullptr);
  }
  note_write();
}

extern "C" void vrt_atomic_xchg(volatile void* a, unsigned sz, int mo, const void* val, void* out) {
  if (!atom_live()) {
    uint8_t tmp[16];
    real_copy(tmp, a, sz);
    memcpy((void*)a, val, sz);
    memcpy(out, tmp, sz);
    return;
  }
  shadow_check((uintptr_t)a, sz, true, "atomic");
  sched_point();
  uint8_t tmp[16];
  if (weak()) {
    Thr& me = G.thr[t_tid];
    if (mo == 5) sc_pre(me);
    Loc* l = loc_get((uintptr_t)a, sz);
    Msg& m = weak_rmw_read(l, mo);
    memcpy(tmp, m.val, sz);
    VC v = m.view;
    weak_store_msg(l, (uintptr_t)a, sz, mo, val, &v);
    if (mo == 5) sc_post(me);
  } else {
    real_copy(tmp, a, sz);
    memcpy((void*)a, val, sz);
    if (g_trace) sc_trace("xchg ", a, sz, tmp, val);
  }
  memcpy(out, tmp, sz);
  note_write();
}

extern "C" int vrt_atomic_cas(volatile void* a, unsigned sz, int mo_s, int mo_f, void* expected, const void* desired, int is_weak) {
  if (!atom_live()) {
    if (memcmp((const void*)a, expected, sz) == 0) {
      memcpy((void*)a, desired, sz);
      return 1;
    }
    real_copy(expected, a, sz);
    return 0;
  }
  shadow_check((uintptr_t)a, sz, true, "atomic");
  sched_point_ex(true);
  bool equal = memcmp((const void*)a, expected, sz) == 0;
  bool spurious = false;
  if (equal && is_weak && (g_shm->flags & F_WEAK)) {
    Shm* s = g_shm;
    uint32_t idx = G.n_weakcas++;
    if (replaying()) {
      while (G.ri_spur < s->in.n_spur && s->in.spur[G.ri_spur].at < idx) G.ri_spur++;
      if (G.ri_spur < s->in.n_spur && s->in.spur[G.ri_spur].at == idx) {
        spurious = true;
        G.ri_spur++;
      }
    } else if (G.spur_pm && G.rrf.below(1000) < G.spur_pm) {
      spurious = true;
    }
    if (spurious) record(s->out.spur, s->out.n_spur, 1024, idx, 1);
  }
  if (weak()) {
    Thr& me = G.thr[t_tid];
    Loc* l = loc_get((uintptr_t)a, sz);
    if (equal && !spurious) {
      if (mo_s == 5) sc_pre(me);
      Msg& m = weak_rmw_read(l, mo_s);
      VC v = m.view;
      weak_store_msg(l, (uintptr_t)a, sz, mo_s, desired, &v);
      if (mo_s == 5) sc_post(me);
      note_write();
      return 1;
    }
    if (mo_f == 5) sc_pre(me);
    Msg& m = weak_rmw_read(l, mo_f);
    if (!spurious) memcpy(expected, m.val, sz);
    me.cur.c[t_tid]++;
    if (mo_f == 5) sc_post(me);
    return 0;
  }
  if (equal && !spurious) {
    if (g_trace) sc_trace("cas+ ", a, sz, expected, desired);
    memcpy((void*)a, desired, sz);
    note_write();
    return 1;
  }
  if (g_trace) sc_trace("cas- ", a, sz, (const void*)a, nullptr);
  if (!spurious) real_copy(expected, a, sz);
  return 0;
}

extern "C" uint64_t vrt_atomic_rmw(volatile void* a, unsigned sz, int mo, int op, uint64_t operand) {
  uint64_t old = 0;
  auto apply = [&](uint64_t o) -> uint64_t {
    switch (op) {
    case 0: return o + operand;
    case 1: return o - operand;
    case 2: return o & operand;
    case 3: return o | operand;
    default: return o ^ operand;
    }
  };
  if (!atom_live()) {
    real_copy(&old, a, sz);
    uint64_t nv = apply(old);
    memcpy((void*)a, &nv, sz);
    return old;
  }
  shadow_check((uintptr_t)a, sz, true, "atomic");
  sched_point();
  if (weak()) {
    Thr& me = G.thr[t_tid];
    if (mo == 5) sc_pre(me);
    Loc* l = loc_get((uintptr_t)a, sz);
    Msg& m = weak_rmw_read(l, mo);
    memcpy(&old, m.val, sz);
    VC v = m.view;
    uint64_t nv = apply(old);
    weak_store_msg(l, (uintptr_t)a, sz, mo, &nv, &v);
    if (mo == 5) sc_post(me);
  } else {
    real_copy(&old, a, sz);
    uint64_t nv = apply(old);
    memcpy((void*)a, &nv, sz);
    if (g_trace) sc_trace("rmw  ", a, sz, &old, &nv);
  }
  note_write();
  return old;
}

extern "C" void vrt_fence(int mo) {
  if (!atom_live()) return;
  sched_point();
  if (weak()) weak_fence(mo);
}

// ------------------------------------------------------------------------------------------------
// TSan ABI (the harness TU is compiled with -fsanitize=thread, but libtsan is not linked)
// ------------------------------------------------------------------------------------------------
extern "C" {
void __tsan_init() {}
void __tsan_func_entry(void*) {}
void __tsan_func_exit() {}
void __tsan_read1(void* a) { plain_access(a, 1, false); }
void __tsan_read2(void* a) { plain_access(a, 2, false); }
void __tsan_read4(void* a) { plain_access(a, 4, false); }
void __tsan_read8(void* a) { plain_access(a, 8, false); }
void __tsan_read16(void* a) { plain_access(a, 16, false); }
void __tsan_write1(void* a) { plain_access(a, 1, true); }
void __tsan_write2(void* a) { plain_access(a, 2, true); }
void __tsan_write4(void* a) { plain_access(a, 4, true); }
void __tsan_write8(void* a) { plain_access(a, 8, true); }
void __tsan_write16(void* a) { plain_access(a, 16, true); }
void __tsan_unaligned_read2(void* a) { plain_access(a, 2, false); }
void __tsan_unaligned_read4(void* a) { plain_access(a, 4, false); }
void __tsan_unaligned_read8(void* a) { plain_access(a, 8, false); }
void __tsan_unaligned_read16(void* a) { plain_access(a, 16, false); }
void __tsan_unaligned_write2(void* a) { plain_access(a, 2, true); }
void __tsan_unaligned_write4(void* a) { plain_access(a, 4, true); }
void __tsan_unaligned_write8(void* a) { plain_access(a, 8, true); }
void __tsan_unaligned_write16(void* a) { plain_access(a, 16, true); }
void __tsan_read_range(void* a, unsigned long n) {
  if (n) plain_access(a, n, false);
}
void __tsan_write_range(void* a, unsigned long n) {
  if (n) plain_access(a, n, true);
}
void __tsan_vptr_update(void** vptr, void* val) {
  if (*vptr != val) plain_access(vptr, 8, true);
}
void __tsan_vptr_read(void** vptr) { plain_access(vptr, 8, false); }
void __tsan_ignore_thread_begin() {}
void __tsan_ignore_thread_end() {}

// atomics used by the standard library inside the instrumented TU (static-init guards, shared_ptr counts, ...):
// the compiler turns them into __tsan_atomic* calls; they are not part of the code under test -> plain atomics.
#define VRT_TSAN_ATOMIC(N, T)                                                                                                   \
  T __tsan_atomic##N##_load(const volatile T* a, int) { return __atomic_load_n(a, __ATOMIC_SEQ_CST); }                         \
  void __tsan_atomic##N##_store(volatile T* a, T v, int) { __atomic_store_n(a, v, __ATOMIC_SEQ_CST); }                         \
  T __tsan_atomic##N##_exchange(volatile T* a, T v, int) { return __atomic_exchange_n(a, v, __ATOMIC_SEQ_CST); }               \
  T __tsan_atomic##N##_fetch_add(volatile T* a, T v, int) { return __atomic_fetch_add(a, v, __ATOMIC_SEQ_CST); }               \
  T __tsan_atomic##N##_fetch_sub(volatile T* a, T v, int) { return __atomic_fetch_sub(a, v, __ATOMIC_SEQ_CST); }               \
  T __tsan_atomic##N##_fetch_and(volatile T* a, T v, int) { return __atomic_fetch_and(a, v, __ATOMIC_SEQ_CST); }               \
  T __tsan_atomic##N##_fetch_or(volatile T* a, T v, int) { return __atomic_fetch_or(a, v, __ATOMIC_SEQ_CST); }                 \
  T __tsan_atomic##N##_fetch_xor(volatile T* a, T v, int) { return __atomic_fetch_xor(a, v, __ATOMIC_SEQ_CST); }               \
  int __tsan_atomic##N##_compare_exchange_strong(volatile T* a, T* c, T v, int, int) {                                        \
    return __atomic_compare_exchange_n(a, c, v, false, __ATOMIC_SEQ_CST, __ATOMIC_SEQ_CST);                                    \
  }                                                                                                                            \
  int __tsan_atomic##N##_compare_exchange_weak(volatile T* a, T* c, T v, int, int) {                                          \
    return __atomic_compare_exchange_n(a, c, v, false, __ATOMIC_SEQ_CST, __ATOMIC_SEQ_CST);                                    \
  }                                                                                                                            \
  T __tsan_atomic##N##_compare_exchange_val(volatile T* a, T c, T v, int, int) {                                              \
    __atomic_compare_exchange_n(a, &c, v, false, __ATOMIC_SEQ_CST, __ATOMIC_SEQ_CST);                                          \
    return c;                                                                                                                  \
  }
VRT_TSAN_ATOMIC(8, unsigned char)
VRT_TSAN_ATOMIC(16, unsigned short)
VRT_TSAN_ATOMIC(32, unsigned int)
VRT_TSAN_ATOMIC(64, unsigned long)
void __tsan_atomic_thread_fence(int) { __atomic_thread_fence(__ATOMIC_SEQ_CST); }
void __tsan_atomic_signal_fence(int) {}
}

// ------------------------------------------------------------------------------------------------
// operator new / delete
// ------------------------------------------------------------------------------------------------
static void* vnew(size_t n, size_t al) {
  if (g_active) return arena_alloc(n, al);
  void* p = al > 16 ? aligned_alloc(al, (n + al - 1) / al * al) : malloc(n ? n : 1);
  if (!p) abort();
  return p;
}
static void vdelete(void* p) {
  if (!p) return;
  if (arena_of((uintptr_t)p) >= 0) {
    if (g_active) arena_free(p);
    return;
  }
  free(p);
}
void* operator new(size_t n) { return vnew(n, 16); }
void* operator new[](size_t n) { return vnew(n, 16); }
void* operator new(size_t n, const std::nothrow_t&) noexcept { return vnew(n, 16); }
void* operator new[](size_t n, const std::nothrow_t&) noexcept { return vnew(n, 16); }
void* operator new(size_t n, std::align_val_t a) { return vnew(n, (size_t)a); }
void* operator new[](size_t n, std::align_val_t a) { return vnew(n, (size_t)a); }
void* operator new(size_t n, std::align_val_t a, const std::nothrow_t&) noexcept { return vnew(n, (size_t)a); }
void* operator new[](size_t n, std::align_val_t a, const std::nothrow_t&) noexcept { return vnew(n, (size_t)a); }
void operator delete(void* p) noexcept { vdelete(p); }
void operator delete[](void* p) noexcept { vdelete(p); }
void operator delete(void* p, size_t) noexcept { vdelete(p); }
void operator delete[](void* p, size_t) noexcept { vdelete(p); }
void operator delete(void* p, const std::nothrow_t&) noexcept { vdelete(p); }
void operator delete[](void* p, const std::nothrow_t&) noexcept { vdelete(p); }
void operator delete(void* p, std::align_val_t) noexcept { vdelete(p); }
void operator delete[](void* p, std::align_val_t) noexcept { vdelete(p); }
void operator delete(void* p, size_t, std::align_val_t) noexcept { vdelete(p); }
void operator delete[](void* p, size_t, std::align_val_t) noexcept { vdelete(p); }
void operator delete(void* p, std::align_val_t, const std::nothrow_t&) noexcept { vdelete(p); }
void operator delete[](void* p, std::align_val_t, const std::nothrow_t&) noexcept { vdelete(p); }

// ------------------------------------------------------------------------------------------------
// crashes and assertions are observations
// ------------------------------------------------------------------------------------------------
extern "C" void __assert_fail(const char* expr, const char* file, unsigned line, const char* func) {
  if (g_active && g_shm) {
    const char* f = strrchr(file, '/');
    vrt::fail("assertion", "%s:%u: %s: `%s'", f ? f + 1 : file, line, func ? func : "", expr);
  }
  fprintf(stderr, "%s:%u: %s: Assertion `%s' failed.\n", file, line, func, expr);
  abort();
}

static void on_signal(int sig, siginfo_t* si, void*) {
  if (g_shm && g_shm->verdict == V_NONE) {
    g_shm->verdict = V_VIOLATION;
    snprintf(g_shm->kind, sizeof g_shm->kind, "crash_%s",
             sig == SIGSEGV ? "SIGSEGV" : sig == SIGBUS ? "SIGBUS" : sig == SIGABRT ? "SIGABRT" : sig == SIGFPE ? "SIGFPE" : "SIGILL");
    uintptr_t x = (uintptr_t)si->si_addr;
    const char* where = "";
    if (si->si_code == SI_KERNEL)
      where = " (non-canonical address: probably a pointer read from freed/poisoned memory)";
    else if (x < 4096)
      where = " (null dereference)";
    else if (x >= 0xdd00000000000000ull || (x >> 40) == 0xdddddd)
      where = " (pointer read from freed memory)";
    snprintf(g_shm->msg, sizeof g_shm->msg, "signal %d at address %p in thread %d%s", sig, si->si_addr, t_tid, where);
    g_shm->steps = G.step;
  }
  _exit(0);
}

namespace vrt {

// called by the driver in the forked child before the harness runs
void case_begin(Shm* shm) {
  g_shm = shm;
  Shm* s = shm;
  s->verdict = V_NONE;
  s->kind[0] = s->msg[0] = 0;
  s->nontrivial = 0;
  s->fingerprint = 0;
  s->steps = 0;
  s->switches = s->stale_reads = 0;
  s->n_labels = 0;
  s->n_counters = 0;
  s->desc_len = 0;
  s->desc[0] = 0;
  s->out.n_prog = s->out.n_sched = s->out.n_rf = s->out.n_rnd = s->out.n_spur = 0;
  s->out.overflow = 0;
  s->out.solo_at = ~0u;
  s->out.solo_tid = 0;

  struct sigaction sa;
  memset(&sa, 0, sizeof sa);
  sa.sa_sigaction = on_signal;
  sa.sa_flags = SA_SIGINFO | SA_NODEFER;
  static char altstack[64 * 1024];
  stack_t ss{altstack, 0, sizeof altstack};
  sigaltstack(&ss, nullptr);
  sa.sa_flags |= SA_ONSTACK;
  for (int sig : {SIGSEGV, SIGBUS, SIGABRT, SIGFPE, SIGILL}) sigaction(sig, &sa, nullptr);

  G.rprog.s = mix(s->seed, 1);
  G.rs.s = mix(s->seed, 2);
  G.rrf.s = mix(s->seed, 3);
  G.rrnd.s = mix(s->seed, 4);
  G.weakW = s->weak_window ? s->weak_window : 16;
  G.solo_bound = param("solo_bound", 4000);
  G.spin_limit = (uint32_t)param("spin_limit", 48);
  G.seq_op_cap = param("seq_op_cap", 300000);
  G.livelock_steps = param("livelock_steps", 12000);
  g_watch = (uintptr_t)param("watch", 0);
  g_trace = param("trace", 0) != 0;
  g_reuse = param("reuse", 0) != 0 && !(g_shm->flags & F_WEAK);
  t_tid = 0;
  G.cur = 0;
  Thr& m = G.thr[0];
  m.state = T_RUNNABLE;
  m.joined = false;
  m.cur.c[0] = 1;
  m.acq = m.rel = m.cur;

  if (!replaying()) {
    // scheduling strategy for this case
    static const uint32_t qs[4] = {1, 3, 8, 20};
    uint32_t forced = (uint32_t)param("strategy", 99);
    uint32_t r = G.rs.below(100);
    G.strategy = forced < 5 ? (int)forced : r < 15 ? 0 : r < 50 ? 1 : r < 65 ? 2 : r < 80 ? 3 : 4;
    G.quantum = qs[G.rs.below(4)];
    G.est_len = 20 + G.rs.below((uint32_t)param("est_len", 400));
    G.nchg = 0;
    if (G.strategy == 2) {
      G.nchg = 1 + (int)G.rs.below(4);
      for (int i = 0; i < G.nchg; ++i) G.chg[i] = G.rs.below(G.est_len);
      m.prio = (int)G.rs.below(1000) + 10;
    } else if (G.strategy == 4) {
      G.nchg = (int)G.rs.below(4);
      for (int i = 0; i < G.nchg; ++i) G.chg[i] = G.rs.below(G.est_len);
    } else if (G.strategy == 3) {
      G.stall_tid = 1 + (int)G.rs.below(4);
      G.stall_from = G.rs.below(G.est_len);
      G.stall_to = G.rs.one_in(2) ? ~0u : G.stall_from + G.rs.below(G.est_len);
    }
    if (s->flags & F_WEAK) {
      static const uint32_t sp[5] = {5, 10, 20, 35, 50};
      G.stale_pct = sp[G.rs.below(5)];
      G.spur_pm = G.rs.one_in(2) ? 0 : 20;
    }
    if (s->flags & F_SOLO) {
      G.solo_at = G.rs.below(G.est_len);
      G.solo_pick = (uint32_t)G.rs.next();
    }
  } else {
    G.strategy = (int)s->in.strategy;
    G.solo_at = s->in.solo_at;
    G.solo_rebased = true; // recorded switch steps are absolute
  }
  g_active = true;
}

void case_end_pass() {
  if (g_reused_blocks > 0) label("address_reused");
  g_shm->verdict = V_PASS;
  finish_traces();
}

} // namespace vrt
