// Interposition prelude (Engine A).  Included FIRST in a harness TU, before any xenium header.
// Pre-includes every standard header xenium uses (so their include guards are set), declares the
// shim types and then redirects the tokens `atomic`, `atomic_thread_fence`, `mutex`, `random`,
// `yield` while the xenium headers are being parsed.  prelude_end.hpp removes the redirection.
#pragma once
#include <algorithm>
#include <array>
#include <atomic>
#include <cassert>
#include <cstddef>
#include <cstdint>
#include <cstdlib>
#include <cstring>
#include <emmintrin.h>
#include <functional>
#include <iterator>
#include <limits>
#include <map>
#include <memory>
#include <mutex>
#include <new>
#include <optional>
#include <set>
#include <stdexcept>
#include <string>
#include <thread>
#include <tuple>
#include <type_traits>
#include <unordered_map>
#include <utility>
#include <vector>

#include "vrt.h"

#include <xenium/utils.hpp> // the original utils::random() (rdtsc) gets defined under its own name

namespace std {

template <class T>
struct vatomic {
  static_assert(is_trivially_copyable_v<T>, "atomic<T> requires a trivially copyable T");
  alignas(alignof(std::atomic<T>)) T v_;

  using value_type = T;
  static constexpr bool is_always_lock_free = true;
  bool is_lock_free() const noexcept { return true; }

  vatomic() noexcept = default;
  constexpr vatomic(T v) noexcept : v_(v) {}
  vatomic(const vatomic&) = delete;
  vatomic& operator=(const vatomic&) = delete;

private:
  union U {
    T t;
    char c;
    U() noexcept : c() {}
  };
  static constexpr memory_order fail_order(memory_order m) noexcept {
    return m == memory_order_acq_rel ? memory_order_acquire : m == memory_order_release ? memory_order_relaxed : m;
  }

public:
  T load(memory_order mo = memory_order_seq_cst) const noexcept {
    U u;
    vrt_atomic_load(&v_, sizeof(T), (int)mo, &u.t);
    return u.t;
  }
  void store(T v, memory_order mo = memory_order_seq_cst) noexcept { vrt_atomic_store(&v_, sizeof(T), (int)mo, &v); }
  T exchange(T v, memory_order mo = memory_order_seq_cst) noexcept {
    U u;
    vrt_atomic_xchg(&v_, sizeof(T), (int)mo, &v, &u.t);
    return u.t;
  }
  bool compare_exchange_strong(T& e, T d, memory_order s, memory_order f) noexcept {
    return vrt_atomic_cas(&v_, sizeof(T), (int)s, (int)f, &e, &d, 0) != 0;
  }
  bool compare_exchange_strong(T& e, T d, memory_order s = memory_order_seq_cst) noexcept {
    return compare_exchange_strong(e, d, s, fail_order(s));
  }
  bool compare_exchange_weak(T& e, T d, memory_order s, memory_order f) noexcept {
    return vrt_atomic_cas(&v_, sizeof(T), (int)s, (int)f, &e, &d, 1) != 0;
  }
  bool compare_exchange_weak(T& e, T d, memory_order s = memory_order_seq_cst) noexcept {
    return compare_exchange_weak(e, d, s, fail_order(s));
  }
  operator T() const noexcept { return load(); }
  T operator=(T v) noexcept {
    store(v);
    return v;
  }

  // integral
  template <class U2 = T, enable_if_t<is_integral_v<U2> && !is_same_v<U2, bool>, int> = 0>
  U2 fetch_add(U2 x, memory_order mo = memory_order_seq_cst) noexcept {
    return (U2)vrt_atomic_rmw(&v_, sizeof(T), (int)mo, 0, (uint64_t)x);
  }
  template <class U2 = T, enable_if_t<is_integral_v<U2> && !is_same_v<U2, bool>, int> = 0>
  U2 fetch_sub(U2 x, memory_order mo = memory_order_seq_cst) noexcept {
    return (U2)vrt_atomic_rmw(&v_, sizeof(T), (int)mo, 1, (uint64_t)x);
  }
  template <class U2 = T, enable_if_t<is_integral_v<U2>, int> = 0>
  U2 fetch_and(U2 x, memory_order mo = memory_order_seq_cst) noexcept {
    return (U2)vrt_atomic_rmw(&v_, sizeof(T), (int)mo, 2, (uint64_t)x);
  }
  template <class U2 = T, enable_if_t<is_integral_v<U2>, int> = 0>
  U2 fetch_or(U2 x, memory_order mo = memory_order_seq_cst) noexcept {
    return (U2)vrt_atomic_rmw(&v_, sizeof(T), (int)mo, 3, (uint64_t)x);
  }
  template <class U2 = T, enable_if_t<is_integral_v<U2>, int> = 0>
  U2 fetch_xor(U2 x, memory_order mo = memory_order_seq_cst) noexcept {
    return (U2)vrt_atomic_rmw(&v_, sizeof(T), (int)mo, 4, (uint64_t)x);
  }
  // pointers
  template <class U2 = T, enable_if_t<is_pointer_v<U2>, int> = 0>
  U2 fetch_add(ptrdiff_t x, memory_order mo = memory_order_seq_cst) noexcept {
    return (U2)vrt_atomic_rmw(&v_, sizeof(T), (int)mo, 0, (uint64_t)(x * (ptrdiff_t)sizeof(remove_pointer_t<U2>)));
  }
  template <class U2 = T, enable_if_t<is_pointer_v<U2>, int> = 0>
  U2 fetch_sub(ptrdiff_t x, memory_order mo = memory_order_seq_cst) noexcept {
    return (U2)vrt_atomic_rmw(&v_, sizeof(T), (int)mo, 1, (uint64_t)(x * (ptrdiff_t)sizeof(remove_pointer_t<U2>)));
  }
  template <class U2 = T, enable_if_t<(is_integral_v<U2> && !is_same_v<U2, bool>) || is_pointer_v<U2>, int> = 0>
  U2 operator++() noexcept {
    return fetch_add(1) + 1;
  }
  template <class U2 = T, enable_if_t<(is_integral_v<U2> && !is_same_v<U2, bool>) || is_pointer_v<U2>, int> = 0>
  U2 operator++(int) noexcept {
    return fetch_add(1);
  }
  template <class U2 = T, enable_if_t<(is_integral_v<U2> && !is_same_v<U2, bool>) || is_pointer_v<U2>, int> = 0>
  U2 operator--() noexcept {
    return fetch_sub(1) - 1;
  }
  template <class U2 = T, enable_if_t<(is_integral_v<U2> && !is_same_v<U2, bool>) || is_pointer_v<U2>, int> = 0>
  U2 operator--(int) noexcept {
    return fetch_sub(1);
  }
  template <class U2 = T, enable_if_t<is_integral_v<U2> && !is_same_v<U2, bool>, int> = 0>
  U2 operator+=(U2 x) noexcept {
    return fetch_add(x) + x;
  }
  template <class U2 = T, enable_if_t<is_integral_v<U2> && !is_same_v<U2, bool>, int> = 0>
  U2 operator-=(U2 x) noexcept {
    return fetch_sub(x) - x;
  }
  template <class U2 = T, enable_if_t<is_integral_v<U2>, int> = 0>
  U2 operator&=(U2 x) noexcept {
    return fetch_and(x) & x;
  }
  template <class U2 = T, enable_if_t<is_integral_v<U2>, int> = 0>
  U2 operator|=(U2 x) noexcept {
    return fetch_or(x) | x;
  }
  template <class U2 = T, enable_if_t<is_integral_v<U2>, int> = 0>
  U2 operator^=(U2 x) noexcept {
    return fetch_xor(x) ^ x;
  }
};

inline void vatomic_thread_fence(memory_order mo) noexcept {
  vrt_fence((int)mo);
}

struct vmutex {
  vmutex() noexcept = default;
  vmutex(const vmutex&) = delete;
  vmutex& operator=(const vmutex&) = delete;
  void lock() { vrt_mutex_lock(this); }
  bool try_lock() { return vrt_mutex_trylock(this) != 0; }
  void unlock() { vrt_mutex_unlock(this); }

private:
  char pad_[40] = {};
};

namespace this_thread {
  inline void vyield() noexcept { vrt_yield(); }
} // namespace this_thread
} // namespace std

namespace xenium::utils {
inline std::uint64_t vrandom() {
  return vrt_random();
}
} // namespace xenium::utils

#define atomic vatomic
#define atomic_thread_fence vatomic_thread_fence
#define mutex vmutex
#define random vrandom
#define yield vyield
