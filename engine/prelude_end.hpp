// End of the interposed region: harness code below uses the real std names again.
#undef atomic
#undef atomic_thread_fence
#undef mutex
#undef random
#undef yield
