// Shared-memory record exchanged between the campaign driver (parent) and a case (forked child).
#pragma once
#include <cstdint>

namespace vrt {

enum : uint32_t {
  F_WEAK = 1u << 0,        // weak-memory mode (view based release/acquire model + race detector)
  F_SOLO = 1u << 1,        // solo mode (C16)
  F_REPLAY = 1u << 2,      // all decisions come from `in`
  F_WANT_DESC = 1u << 3,   // harness should describe the case into desc[]
  F_PLAIN_POINTS = 1u << 4 // instrumented plain accesses to the main arena are scheduling points
};

enum : int { V_NONE = 0, V_PASS = 1, V_VIOLATION = 2, V_INCONCLUSIVE = 3 };

constexpr uint32_t MAX_PROG = 4096;
constexpr uint32_t MAX_SCHED = 32768;
constexpr uint32_t MAX_RF = 16384;
constexpr uint32_t MAX_RND = 2048;
constexpr uint32_t MAX_LABELS = 64;
constexpr uint32_t MAX_DESC = 96 * 1024;
constexpr uint32_t MAX_PARAMS = 24;

struct Pair {
  uint32_t at;  // index of the decision point (global step for sched; n-th choice point otherwise)
  uint32_t val; // thread id / how many messages back / random value / 1
};

struct Traces {
  uint32_t n_prog, n_sched, n_rf, n_rnd, n_spur;
  uint32_t overflow; // some list was truncated: replay is approximate
  uint32_t strategy; // generation: scheduling strategy id (informational in replay)
  uint32_t solo_at, solo_tid; // solo mode switch (valid when solo_at != ~0u)
  uint32_t prog[MAX_PROG];
  Pair sched[MAX_SCHED];
  Pair rf[MAX_RF];
  Pair rnd[MAX_RND];
  Pair spur[1024];
};

struct Param {
  char name[24];
  uint64_t val;
};

struct Shm {
  // ---- inputs
  uint32_t flags;
  uint64_t seed;
  char prop[8];
  int cfg;
  uint32_t step_cap;
  uint32_t weak_window;
  uint32_t n_params;
  Param params[MAX_PARAMS];
  Traces in;
  // ---- outputs
  int verdict;
  char kind[48];
  char msg[512];
  uint32_t nontrivial;
  uint64_t fingerprint;
  uint64_t steps;
  uint32_t switches;
  uint32_t stale_reads;
  uint32_t n_labels;
  char labels[MAX_LABELS][40];
  uint32_t n_counters;
  char counter_names[16][40];
  uint64_t counters[16];
  uint32_t desc_len;
  char desc[MAX_DESC];
  Traces out;
};

} // namespace vrt
