// O-LIN: linearizability checker (Wing–Gong / Lowe style backtracking with memoisation).
// A history is a set of completed operations with invocation/response stamps; precedence A < B is
// resp(A) happens-before inv(B) (logical step order in SC mode, vector clocks in weak mode).
#pragma once
#include "hcommon.hpp"
#include "vrt.h"

#include <cstdint>
#include <unordered_map>
#include <unordered_set>
#include <vector>

namespace lin {

struct OpBase {
  int tid = 0;
  vrt::Stamp inv{}, resp{};
};

// Spec requirements:
//   typename Spec::Op   (derives from OpBase or has tid/inv/resp)
//   typename Spec::State (copyable)
//   int  Spec::alternatives(const Op&) const      -- number of alternative effects (normally 1)
//   bool Spec::apply(State&, const Op&, int alt) const -- may the operation take effect now with its recorded result?
//   uint64_t Spec::hash(const State&) const
//   bool Spec::equal(const State&, const State&) const   -- exact equality (the memo never relies on the hash alone)
template <class Spec>
struct Checker {
  using Op = typename Spec::Op;
  using State = typename Spec::State;
  const Spec& spec;
  const std::vector<Op, vh::HAlloc<Op>>& ops;
  std::vector<uint64_t, vh::HAlloc<uint64_t>> pred; // bitmask of operations that must be linearized before i
  // memo of visited (linearized set, state) pairs: exact comparison, the hash only selects the bucket
  struct Visited {
    uint64_t done;
    State st;
  };
  std::unordered_multimap<uint64_t, Visited, std::hash<uint64_t>, std::equal_to<uint64_t>, vh::HAlloc<std::pair<const uint64_t, Visited>>> memo;
  bool seen(uint64_t key, uint64_t done, const State& st) const {
    auto r = memo.equal_range(key);
    for (auto it = r.first; it != r.second; ++it)
      if (it->second.done == done && spec.equal(it->second.st, st)) return true;
    return false;
  }
  std::vector<int, vh::HAlloc<int>> order; // witness linearization
  uint64_t nodes = 0, node_cap;
  bool capped = false;
  int deepest = 0;
  std::vector<int, vh::HAlloc<int>> deepest_order;

  Checker(const Spec& s, const std::vector<Op, vh::HAlloc<Op>>& o, uint64_t cap = 2000000) : spec(s), ops(o), node_cap(cap) {
    size_t n = ops.size();
    pred.assign(n, 0);
    for (size_t i = 0; i < n; ++i)
      for (size_t j = 0; j < n; ++j)
        if (i != j && vrt::hb(ops[j].resp, ops[j].tid, ops[i].inv)) pred[i] |= (1ull << j);
  }

  bool search(uint64_t done, const State& st) {
    size_t n = ops.size();
    if (done == (n == 64 ? ~0ull : ((1ull << n) - 1))) return true;
    if (++nodes > node_cap) {
      capped = true;
      return true; // inconclusive: never turned into a violation
    }
    uint64_t key = vh::hmix(done, spec.hash(st));
    if (seen(key, done, st)) return false;
    for (size_t i = 0; i < n; ++i) {
      if (done & (1ull << i)) continue;
      if (pred[i] & ~done) continue;
      // an operation whose effect cannot be told from its result may offer several alternatives
      for (int alt = 0, nalt = spec.alternatives(ops[i]); alt < nalt; ++alt) {
        State s2 = st;
        if (!spec.apply(s2, ops[i], alt)) continue;
        order.push_back((int)i);
        if ((int)order.size() > deepest) {
          deepest = (int)order.size();
          deepest_order = order;
        }
        if (search(done | (1ull << i), s2)) return true;
        order.pop_back();
      }
    }
    memo.emplace(key, Visited{done, st});
    return false;
  }

  // returns true if linearizable (or the search was capped)
  bool run(const State& init) {
    if (ops.size() > 64) {
      capped = true;
      return true;
    }
    return search(0, init);
  }

  // number of other operations that overlap operation i (neither precedes the other)
  int overlaps(size_t i) const {
    int c = 0;
    for (size_t j = 0; j < ops.size(); ++j)
      if (j != i && !(pred[i] & (1ull << j)) && !(pred[j] & (1ull << i))) c++;
    return c;
  }
};

} // namespace lin
