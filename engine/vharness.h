// Interface a harness translation unit offers to the campaign driver.
#pragma once
namespace vrt {
struct Cfg {
  const char* name;
  void (*run)();    // executes one case in the forked child (draws its program through vrt::choose)
  const char* tags; // comma separated: property ids served, tier membership ("quick"), family
};
struct Harness {
  const char* name;
  const Cfg* cfgs;
  int ncfg;
  int version = 1; // bump when the program generator changes shape: older replay files are then reported as stale
};
} // namespace vrt
extern "C" const vrt::Harness* vrt_harness();
