// driver.cpp — campaign driver ("vgen"): seeded case generation, fork-per-case isolation, outcome
// classification, shrinking on explicit decision traces, replay files, per-worker statistics.
// Linked into every Engine-A harness binary.  Compiled WITHOUT instrumentation.
#include "vharness.h"
#include "vrt.h"
#include "vshm.h"

#include <algorithm>
#include <cerrno>
#include <chrono>
#include <csignal>
#include <cstdio>
#include <cstdlib>
#include <cstring>
#include <map>
#include <sched.h>
#include <set>
#include <string>
#include <sys/mman.h>
#include <sys/wait.h>
#include <unistd.h>
#include <unordered_set>
#include <vector>

namespace vrt {
void arena_map();
void case_begin(Shm*);
void case_end_pass();
} // namespace vrt
using namespace vrt;

static const Harness* H;
static Shm* S;
static int g_watchdog_s = 20;

static double now_s() {
  using namespace std::chrono;
  return duration<double>(steady_clock::now().time_since_epoch()).count();
}
static uint64_t hash_str(const char* s) {
  uint64_t h = 1469598103934665603ull;
  for (; *s; ++s) h = (h ^ (unsigned char)*s) * 1099511628211ull;
  return h;
}
static uint64_t mix64(uint64_t a, uint64_t b) {
  uint64_t z = a ^ (b * 0x9e3779b97f4a7c15ull);
  z += 0x9e3779b97f4a7c15ull;
  z = (z ^ (z >> 30)) * 0xbf58476d1ce4e5b9ull;
  z = (z ^ (z >> 27)) * 0x94d049bb133111ebull;
  return z ^ (z >> 31);
}

// ------------------------------------------------------------------------------------------------
// running one case
// ------------------------------------------------------------------------------------------------
struct Outcome {
  int verdict = V_NONE;
  std::string kind, msg;
};

static Outcome run_case() {
  S->verdict = V_NONE;
  fflush(nullptr);
  pid_t pid = fork();
  if (pid < 0) {
    perror("fork");
    exit(2);
  }
  if (pid == 0) {
    alarm((unsigned)g_watchdog_s);
    case_begin(S);
    H->cfgs[S->cfg].run();
    case_end_pass();
    _exit(0);
  }
  int st = 0;
  while (waitpid(pid, &st, 0) < 0 && errno == EINTR) {
  }
  Outcome o;
  if (WIFSIGNALED(st)) {
    int sig = WTERMSIG(st);
    if (S->verdict != V_NONE) {
      o.verdict = S->verdict;
      o.kind = S->kind;
      o.msg = S->msg;
    } else if (sig == SIGALRM || sig == SIGKILL) {
      o.verdict = V_INCONCLUSIVE;
      o.kind = "watchdog";
    } else {
      o.verdict = V_VIOLATION;
      o.kind = std::string("crash_signal_") + std::to_string(sig);
      o.msg = "child killed by signal " + std::to_string(sig) + " outside the runtime's handler (stack overflow?)";
    }
    return o;
  }
  if (S->verdict == V_NONE) {
    o.verdict = V_VIOLATION;
    o.kind = "abnormal_exit";
    o.msg = "child exited with status " + std::to_string(WEXITSTATUS(st)) + " without a verdict";
    return o;
  }
  o.verdict = S->verdict;
  o.kind = S->kind;
  o.msg = S->msg;
  return o;
}

// ------------------------------------------------------------------------------------------------
// JSON helpers
// ------------------------------------------------------------------------------------------------
static std::string jesc(const std::string& s) {
  std::string o;
  for (unsigned char c : s) {
    if (c == '"' || c == '\\') {
      o += '\\';
      o += (char)c;
    } else if (c == '\n')
      o += "\\n";
    else if (c == '\t')
      o += "\\t";
    else if (c < 0x20) {
      char b[8];
      snprintf(b, sizeof b, "\\u%04x", c);
      o += b;
    } else
      o += (char)c;
  }
  return o;
}
static void jpairs(std::string& o, const char* name, const Pair* p, uint32_t n) {
  o += "\"";
  o += name;
  o += "\":[";
  for (uint32_t i = 0; i < n; ++i) {
    if (i) o += ",";
    o += "[" + std::to_string(p[i].at) + "," + std::to_string(p[i].val) + "]";
  }
  o += "]";
}

struct JParser { // minimal JSON reader (objects, arrays, strings, integers, true/false/null)
  const char* p;
  void ws() {
    while (*p == ' ' || *p == '\n' || *p == '\t' || *p == '\r') ++p;
  }
  bool lit(char c) {
    ws();
    if (*p == c) {
      ++p;
      return true;
    }
    return false;
  }
  std::string str() {
    ws();
    std::string o;
    if (*p != '"') return o;
    ++p;
    while (*p && *p != '"') {
      if (*p == '\\') {
        ++p;
        if (*p == 'n')
          o += '\n';
        else if (*p == 't')
          o += '\t';
        else if (*p == 'u') {
          unsigned v = 0;
          sscanf(p + 1, "%4x", &v);
          o += (char)v;
          p += 4;
        } else
          o += *p;
        ++p;
      } else
        o += *p++;
    }
    if (*p == '"') ++p;
    return o;
  }
  long long num() {
    ws();
    char* e;
    long long v = strtoll(p, &e, 10);
    // skip fraction / exponent
    p = e;
    while ((*p >= '0' && *p <= '9') || *p == '.' || *p == 'e' || *p == 'E' || *p == '+' || *p == '-') ++p;
    return v;
  }
  void skip() {
    ws();
    if (*p == '"') {
      str();
    } else if (*p == '{') {
      ++p;
      if (lit('}')) return;
      do {
        str();
        lit(':');
        skip();
      } while (lit(','));
      lit('}');
    } else if (*p == '[') {
      ++p;
      if (lit(']')) return;
      do {
        skip();
      } while (lit(','));
      lit(']');
    } else if (*p == 't' || *p == 'f' || *p == 'n') {
      while (*p >= 'a' && *p <= 'z') ++p;
    } else
      num();
  }
};

struct CaseSpec {
  std::string prop, cfgname, variant = "prod";
  int cfg = 0;
  uint32_t flags = 0;
  uint64_t seed = 0;
  uint64_t case_no = 0;
  uint32_t step_cap = 20000, window = 16;
  int harness_version = 1;
  std::vector<std::pair<std::string, uint64_t>> params;
};

static void spec_to_shm(const CaseSpec& c, bool replay, bool desc) {
  S->flags = c.flags & ~(F_REPLAY | F_WANT_DESC);
  if (replay) S->flags |= F_REPLAY;
  if (desc) S->flags |= F_WANT_DESC;
  S->seed = c.seed;
  snprintf(S->prop, sizeof S->prop, "%s", c.prop.c_str());
  S->cfg = c.cfg;
  S->step_cap = c.step_cap;
  S->weak_window = c.window;
  S->n_params = 0;
  for (auto& p : c.params)
    if (S->n_params < MAX_PARAMS) {
      snprintf(S->params[S->n_params].name, sizeof S->params[0].name, "%s", p.first.c_str());
      S->params[S->n_params++].val = p.second;
    }
}

static std::string replay_json(const CaseSpec& c, const Traces& t, const Outcome& o, const std::string& description, int repro_ok, int repro_n) {
  std::string j = "{\n";
  j += "\"property\":\"" + c.prop + "\",\n\"harness\":\"" + std::string(H->name) + "\",\n\"cfg\":\"" + c.cfgname + "\",\n";
  j += "\"variant\":\"" + c.variant + "\",\n\"harness_version\":" + std::to_string(H->version) + ",\n";
  j += "\"flags\":" + std::to_string(c.flags & ~(F_REPLAY | F_WANT_DESC)) + ",\n";
  j += "\"seed\":" + std::to_string(c.seed) + ",\n\"case_no\":" + std::to_string(c.case_no) + ",\n";
  j += "\"step_cap\":" + std::to_string(c.step_cap) + ",\n\"weak_window\":" + std::to_string(c.window) + ",\n";
  j += "\"params\":{";
  for (size_t i = 0; i < c.params.size(); ++i) j += (i ? "," : "") + ("\"" + c.params[i].first + "\":" + std::to_string(c.params[i].second));
  j += "},\n";
  j += "\"kind\":\"" + jesc(o.kind) + "\",\n\"message\":\"" + jesc(o.msg) + "\",\n";
  j += "\"reproduced\":\"" + std::to_string(repro_ok) + "/" + std::to_string(repro_n) + "\",\n";
  j += "\"traces\":{\"strategy\":" + std::to_string(t.strategy) + ",\"solo_at\":" + std::to_string(t.solo_at) +
       ",\"solo_tid\":" + std::to_string(t.solo_tid) + ",\n\"prog\":[";
  for (uint32_t i = 0; i < t.n_prog; ++i) j += (i ? "," : "") + std::to_string(t.prog[i]);
  j += "],\n";
  jpairs(j, "sched", t.sched, t.n_sched);
  j += ",\n";
  jpairs(j, "rf", t.rf, t.n_rf);
  j += ",\n";
  jpairs(j, "rnd", t.rnd, t.n_rnd);
  j += ",\n";
  jpairs(j, "spur", t.spur, t.n_spur);
  j += "},\n\"description\":\"" + jesc(description) + "\"\n}\n";
  return j;
}

static bool parse_pairs(JParser& jp, Pair* arr, uint32_t& n, uint32_t max) {
  n = 0;
  if (!jp.lit('[')) return false;
  if (jp.lit(']')) return true;
  do {
    jp.lit('[');
    uint32_t a = (uint32_t)jp.num();
    jp.lit(',');
    uint32_t v = (uint32_t)jp.num();
    jp.lit(']');
    if (n < max) arr[n++] = Pair{a, v};
  } while (jp.lit(','));
  jp.lit(']');
  return true;
}

static bool load_replay(const char* path, CaseSpec& c, Traces& t, std::string& kind) {
  FILE* f = fopen(path, "r");
  if (!f) return false;
  std::string s;
  char buf[65536];
  size_t k;
  while ((k = fread(buf, 1, sizeof buf, f)) > 0) s.append(buf, k);
  fclose(f);
  memset(&t, 0, sizeof t);
  t.solo_at = ~0u;
  JParser jp{s.c_str()};
  if (!jp.lit('{')) return false;
  do {
    std::string key = jp.str();
    jp.lit(':');
    if (key == "property")
      c.prop = jp.str();
    else if (key == "cfg")
      c.cfgname = jp.str();
    else if (key == "variant")
      c.variant = jp.str();
    else if (key == "harness_version")
      c.harness_version = (int)jp.num();
    else if (key == "flags")
      c.flags = (uint32_t)jp.num();
    else if (key == "seed")
      c.seed = (uint64_t)jp.num();
    else if (key == "case_no")
      c.case_no = (uint64_t)jp.num();
    else if (key == "step_cap")
      c.step_cap = (uint32_t)jp.num();
    else if (key == "weak_window")
      c.window = (uint32_t)jp.num();
    else if (key == "kind")
      kind = jp.str();
    else if (key == "params") {
      jp.lit('{');
      if (!jp.lit('}')) {
        do {
          std::string n = jp.str();
          jp.lit(':');
          c.params.emplace_back(n, (uint64_t)jp.num());
        } while (jp.lit(','));
        jp.lit('}');
      }
    } else if (key == "traces") {
      jp.lit('{');
      do {
        std::string k2 = jp.str();
        jp.lit(':');
        if (k2 == "strategy")
          t.strategy = (uint32_t)jp.num();
        else if (k2 == "solo_at")
          t.solo_at = (uint32_t)jp.num();
        else if (k2 == "solo_tid")
          t.solo_tid = (uint32_t)jp.num();
        else if (k2 == "prog") {
          jp.lit('[');
          if (!jp.lit(']')) {
            do {
              uint32_t v = (uint32_t)jp.num();
              if (t.n_prog < MAX_PROG) t.prog[t.n_prog++] = v;
            } while (jp.lit(','));
            jp.lit(']');
          }
        } else if (k2 == "sched")
          parse_pairs(jp, t.sched, t.n_sched, MAX_SCHED);
        else if (k2 == "rf")
          parse_pairs(jp, t.rf, t.n_rf, MAX_RF);
        else if (k2 == "rnd")
          parse_pairs(jp, t.rnd, t.n_rnd, MAX_RND);
        else if (k2 == "spur")
          parse_pairs(jp, t.spur, t.n_spur, 1024);
        else
          jp.skip();
      } while (jp.lit(','));
      jp.lit('}');
    } else
      jp.skip();
  } while (jp.lit(','));
  c.cfg = -1;
  for (int i = 0; i < H->ncfg; ++i)
    if (c.cfgname == H->cfgs[i].name) c.cfg = i;
  return c.cfg >= 0;
}

// ------------------------------------------------------------------------------------------------
// shrinking
// ------------------------------------------------------------------------------------------------
// (member-pointer-to-array needs a little care: arrays decay, so use explicit accessors instead)
struct Shrink2 {
  CaseSpec spec;
  std::string kind;
  Traces* cur;
  Traces* cand;
  int runs = 0, max_runs = 6000;
  double t_end = 0;
  bool budget() const { return runs < max_runs && now_s() < t_end; }

  bool try_cand() {
    if (!budget()) return false;
    runs++;
    spec_to_shm(spec, true, false);
    memcpy(&S->in, cand, sizeof(Traces));
    Outcome o = run_case();
    if (o.verdict == V_VIOLATION && o.kind == kind && !S->out.overflow) {
      S->out.strategy = cand->strategy;
      memcpy(cur, &S->out, sizeof(Traces));
      return true;
    }
    return false;
  }
  enum Which { PROG, SCHED, RF, RND, SPUR };
  uint32_t& count(Traces* t, Which w) { return w == PROG ? t->n_prog : w == SCHED ? t->n_sched : w == RF ? t->n_rf : w == RND ? t->n_rnd : t->n_spur; }
  void erase(Traces* t, Which w, uint32_t start, uint32_t chunk) {
    uint32_t& n = count(t, w);
    if (w == PROG)
      memmove(t->prog + start, t->prog + start + chunk, sizeof(uint32_t) * (n - start - chunk));
    else {
      Pair* a = w == SCHED ? t->sched : w == RF ? t->rf : w == RND ? t->rnd : t->spur;
      memmove(a + start, a + start + chunk, sizeof(Pair) * (n - start - chunk));
    }
    n -= chunk;
  }
  bool ddmin(Which w) {
    bool any = false;
    uint32_t n = count(cur, w);
    if (n == 0) return false;
    // first try to drop the whole list
    for (uint32_t chunk = n; chunk >= 1; chunk /= 2) {
      for (uint32_t start = 0; budget();) {
        n = count(cur, w);
        if (start + chunk > n) break;
        memcpy(cand, cur, sizeof(Traces));
        erase(cand, w, start, chunk);
        if (try_cand())
          any = true; // cur changed; retry same start
        else
          start += chunk;
      }
      if (chunk == 1) break;
    }
    return any;
  }
  bool lower_prog() {
    bool any = false;
    for (uint32_t i = 0; i < cur->n_prog && budget(); ++i) {
      uint32_t v = cur->prog[i];
      if (v == 0) continue;
      uint32_t tries[3] = {0u, v / 2, v - 1};
      for (uint32_t nv : tries) {
        if (nv >= v || i >= cur->n_prog) continue;
        memcpy(cand, cur, sizeof(Traces));
        cand->prog[i] = nv;
        if (try_cand()) {
          any = true;
          break;
        }
      }
    }
    return any;
  }
  bool lower_vals(Which w) {
    bool any = false;
    for (uint32_t i = 0; i < count(cur, w) && budget(); ++i) {
      Pair* a = w == RF ? cur->rf : cur->rnd;
      if (a[i].val <= 1) continue;
      memcpy(cand, cur, sizeof(Traces));
      (w == RF ? cand->rf : cand->rnd)[i].val = a[i].val / 2;
      if (try_cand()) any = true;
    }
    return any;
  }
  void run() {
    bool progress = true;
    for (int round = 0; progress && budget() && round < 5; ++round) {
      progress = false;
      progress |= ddmin(SCHED);
      progress |= ddmin(RF);
      progress |= ddmin(SPUR);
      progress |= ddmin(RND);
      progress |= ddmin(PROG);
      progress |= lower_prog();
      progress |= lower_vals(RF);
      progress |= lower_vals(RND);
    }
  }
};

// ------------------------------------------------------------------------------------------------
// campaign
// ------------------------------------------------------------------------------------------------
struct Args {
  std::string mode, prop = "C00", out, replay_dir = ".", replay_file, tag, cfgs, variant = "prod";
  uint64_t seed = 1, cases = 1000;
  int worker = 0, nworkers = 1;
  double time_s = 1e9;
  bool weak = false, solo = false;
  int plain_pct = 0;
  uint32_t step_cap = 20000, window = 16;
  int samples = 3, times = 3, max_fail = 1;
  double shrink_s = 30;
  bool want_desc = false;
  std::vector<std::pair<std::string, uint64_t>> params;
  std::vector<std::pair<std::string, std::string>> known; // (kind, cfg prefix): listed known findings
};

static bool has_tag(const char* tags, const std::string& tag) {
  if (tag.empty()) return true;
  std::string t = std::string(",") + tags + ",";
  // every requested tag (separated by '+') must be present
  size_t pos = 0;
  while (pos <= tag.size()) {
    size_t e = tag.find('+', pos);
    if (e == std::string::npos) e = tag.size();
    std::string one = tag.substr(pos, e - pos);
    if (!one.empty() && t.find("," + one + ",") == std::string::npos) return false;
    pos = e + 1;
  }
  return true;
}

static std::string write_replay_file(const Args& a, const CaseSpec& spec, const Traces& t, const Outcome& o, const std::string& description, int ok, int n) {
  uint64_t h = mix64(hash_str(o.kind.c_str()), spec.seed);
  for (uint32_t i = 0; i < t.n_prog; ++i) h = mix64(h, t.prog[i]);
  for (uint32_t i = 0; i < t.n_sched; ++i) h = mix64(h, ((uint64_t)t.sched[i].at << 8) | t.sched[i].val);
  char name[512];
  snprintf(name, sizeof name, "%s/%s-%s-%s-%08x.json", a.replay_dir.c_str(), spec.prop.c_str(), H->name, o.kind.c_str(), (unsigned)(h & 0xffffffff));
  FILE* f = fopen(name, "w");
  if (!f) return "";
  std::string j = replay_json(spec, t, o, description, ok, n);
  fwrite(j.data(), 1, j.size(), f);
  fclose(f);
  return name;
}

static int do_replay(const Args& a) {
  CaseSpec spec;
  static Traces t;
  std::string kind;
  if (!load_replay(a.replay_file.c_str(), spec, t, kind)) {
    fprintf(stderr, "cannot load replay file %s for harness %s\n", a.replay_file.c_str(), H->name);
    return 2;
  }
  if (spec.harness_version != H->version) {
    printf("REPLAY-STALE %s was recorded with generator version %d of harness %s, current version is %d\n", a.replay_file.c_str(), spec.harness_version,
           H->name, H->version);
    return 3;
  }
  int fails = 0, same = 0;
  Outcome last;
  for (int i = 0; i < a.times; ++i) {
    spec_to_shm(spec, true, i == 0);
    memcpy(&S->in, &t, sizeof t);
    Outcome o = run_case();
    last = o;
    if (o.verdict == V_VIOLATION) {
      fails++;
      if (o.kind == kind) same++;
    }
    if (i == 0) {
      printf("replay %s: property=%s cfg=%s variant=%s\n", a.replay_file.c_str(), spec.prop.c_str(), spec.cfgname.c_str(), spec.variant.c_str());
      if (S->desc_len) printf("%s\n", S->desc);
    }
    printf("  run %d: %s %s %s\n", i + 1, o.verdict == V_PASS ? "PASS" : o.verdict == V_VIOLATION ? "VIOLATION" : "INCONCLUSIVE", o.kind.c_str(),
           o.msg.c_str());
  }
  printf("REPLAY-RESULT expected_kind=%s violations=%d same_kind=%d of %d\n", kind.c_str(), fails, same, a.times);
  return fails ? 1 : 0;
}

static int do_campaign(const Args& a) {
  std::vector<int> cfgs;
  for (int i = 0; i < H->ncfg; ++i) {
    if (!a.cfgs.empty()) {
      std::string list = "," + a.cfgs + ",";
      if (list.find(std::string(",") + H->cfgs[i].name + ",") == std::string::npos) continue;
    } else if (!has_tag(H->cfgs[i].tags, a.tag))
      continue;
    cfgs.push_back(i);
  }
  if (cfgs.empty()) {
    fprintf(stderr, "no configuration selected (tag=%s cfgs=%s)\n", a.tag.c_str(), a.cfgs.c_str());
    return 2;
  }
  double t0 = now_s();
  uint64_t evals = 0, passes = 0, nontriv = 0, total_steps = 0, total_switches = 0, stale_cases = 0;
  std::map<std::string, uint64_t> inconcl, labels, strategies, counters;
  std::map<std::string, std::pair<uint64_t, uint64_t>> per_cfg;
  std::unordered_set<uint64_t> fps;
  std::vector<std::string> samples;
  std::map<int, int> cfg_failures;
  std::map<std::string, uint64_t> known_hits;
  std::map<std::string, bool> known_saved;
  struct Viol {
    std::string kind, msg, replay, cfg;
    uint64_t case_no;
    int repro;
  };
  std::vector<Viol> viols;
  uint64_t unstable = 0;
  bool time_limited = false;
  static Traces tcur, tcand;
  uint64_t prop_h = hash_str(a.prop.c_str());

  for (uint64_t cn = (uint64_t)a.worker; cn < a.cases; cn += (uint64_t)a.nworkers) {
    if (now_s() - t0 > a.time_s) {
      time_limited = true;
      break;
    }
    int ci = cfgs[(cn / 1) % cfgs.size()];
    if (cfg_failures[ci] >= a.max_fail) continue;
    CaseSpec spec;
    spec.prop = a.prop;
    spec.cfg = ci;
    spec.cfgname = H->cfgs[ci].name;
    spec.variant = a.variant;
    spec.case_no = cn;
    spec.seed = mix64(mix64(a.seed, prop_h), mix64(hash_str(H->cfgs[ci].name), cn));
    spec.flags = (a.weak ? F_WEAK : 0) | (a.solo ? F_SOLO : 0);
    if (a.plain_pct > 0 && (int)(mix64(spec.seed, 77) % 100) < a.plain_pct) spec.flags |= F_PLAIN_POINTS;
    spec.step_cap = a.step_cap;
    spec.window = a.window;
    spec.params = a.params;
    spec_to_shm(spec, false, false);
    Outcome o = run_case();
    evals++;
    total_steps += S->steps;
    total_switches += S->switches;
    if (S->stale_reads) stale_cases++;
    auto& pc = per_cfg[spec.cfgname];
    pc.first++;
    static const char* sn[5] = {"uniform", "quantum", "pct", "stall", "preempt_k"};
    strategies[sn[S->out.strategy % 5]]++;
    for (uint32_t i = 0; i < S->n_labels; ++i) labels[S->labels[i]]++;
    if (o.verdict == V_PASS)
      for (uint32_t i = 0; i < S->n_counters; ++i) counters[S->counter_names[i]] += S->counters[i];
    if (o.verdict == V_PASS) {
      passes++;
      if (S->nontrivial) {
        pc.second++;
        nontriv++;
        bool fresh = fps.insert(mix64(S->fingerprint, hash_str(spec.cfgname.c_str()))).second;
        if (fresh && (int)samples.size() < a.samples) {
          spec_to_shm(spec, false, true);
          run_case();
          std::string d = "cfg=" + spec.cfgname + " case_no=" + std::to_string(cn) + " seed=" + std::to_string(spec.seed) + "\n";
          d.append(S->desc, S->desc_len);
          samples.push_back(d);
        }
      }
    } else if (o.verdict == V_INCONCLUSIVE) {
      inconcl[o.kind]++;
    } else {
      // a violation that matches a listed known finding is counted and the search continues behind it
      std::string known_key;
      for (auto& kf : a.known)
        if (o.kind == kf.first && spec.cfgname.find(kf.second) != std::string::npos) known_key = kf.first + ":" + spec.cfgname;
      if (!known_key.empty()) {
        known_hits[known_key]++; // counted, neither shrunk nor saved: the finding has its committed replay file
        continue;
      }
      // ---- violation: make it explicit, shrink, confirm 3x, write replay file
      memcpy(&tcur, &S->out, sizeof(Traces));
      bool explicit_ok = false;
      if (!tcur.overflow) {
        spec_to_shm(spec, true, false);
        memcpy(&S->in, &tcur, sizeof(Traces));
        Outcome o2 = run_case();
        explicit_ok = o2.verdict == V_VIOLATION && o2.kind == o.kind && !S->out.overflow;
        if (explicit_ok) {
          S->out.strategy = tcur.strategy;
          memcpy(&tcur, &S->out, sizeof(Traces));
        }
      }
      Outcome fin = o;
      int ok = 0, n = a.times;
      std::string description;
      if (explicit_ok) {
        Shrink2 sh;
        sh.spec = spec;
        sh.kind = o.kind;
        sh.cur = &tcur;
        sh.cand = &tcand;
        sh.t_end = now_s() + a.shrink_s;
        sh.run();
        for (int i = 0; i < n; ++i) {
          spec_to_shm(spec, true, i == 0);
          memcpy(&S->in, &tcur, sizeof(Traces));
          Outcome r = run_case();
          if (r.verdict == V_VIOLATION && r.kind == o.kind) {
            ok++;
            fin = r;
          }
          if (i == 0) description.assign(S->desc, S->desc_len);
        }
      } else {
        // decisions could not be made explicit (trace overflow or non-deterministic): re-run by seed
        for (int i = 0; i < n; ++i) {
          spec_to_shm(spec, false, i == 0);
          Outcome r = run_case();
          if (r.verdict == V_VIOLATION && r.kind == o.kind) ok++;
          if (i == 0) {
            description.assign(S->desc, S->desc_len);
            memcpy(&tcur, &S->out, sizeof(Traces));
          }
        }
      }
      if (ok == n) {
        std::string path = write_replay_file(a, spec, tcur, fin, description, ok, n);
        viols.push_back(Viol{fin.kind, fin.msg, path, spec.cfgname, cn, ok});
        if (known_key.empty()) cfg_failures[ci]++;
      } else {
        unstable++;
        inconcl["unstable_violation:" + o.kind]++;
      }
    }
  }

  // ---- write worker result
  std::string j = "{\n";
  j += "\"harness\":\"" + std::string(H->name) + "\",\"property\":\"" + a.prop + "\",\"worker\":" + std::to_string(a.worker) + ",\n";
  j += "\"evaluations\":" + std::to_string(evals) + ",\"passes\":" + std::to_string(passes) + ",\"nontrivial\":" + std::to_string(nontriv) +
       ",\"distinct_nontrivial\":" + std::to_string(fps.size()) + ",\n";
  j += "\"total_steps\":" + std::to_string(total_steps) + ",\"total_switches\":" + std::to_string(total_switches) +
       ",\"cases_with_stale_read\":" + std::to_string(stale_cases) + ",\n";
  j += "\"time_limited\":" + std::string(time_limited ? "true" : "false") + ",\"wall_s\":" + std::to_string(now_s() - t0) + ",\n";
  auto jmap = [&](const char* name, const std::map<std::string, uint64_t>& m) {
    j += "\"" + std::string(name) + "\":{";
    bool first = true;
    for (auto& kv : m) {
      j += (first ? "" : ",") + ("\"" + jesc(kv.first) + "\":" + std::to_string(kv.second));
      first = false;
    }
    j += "},\n";
  };
  jmap("inconclusive", inconcl);
  jmap("known_finding_hits", known_hits);
  jmap("labels", labels);
  jmap("counters", counters);
  jmap("strategies", strategies);
  j += "\"per_cfg\":{";
  {
    bool first = true;
    for (auto& kv : per_cfg) {
      j += (first ? "" : ",") + ("\"" + jesc(kv.first) + "\":[" + std::to_string(kv.second.first) + "," + std::to_string(kv.second.second) + "]");
      first = false;
    }
  }
  j += "},\n\"violations\":[";
  for (size_t i = 0; i < viols.size(); ++i) {
    j += (i ? "," : "");
    j += "{\"kind\":\"" + jesc(viols[i].kind) + "\",\"message\":\"" + jesc(viols[i].msg) + "\",\"replay\":\"" + jesc(viols[i].replay) + "\",\"cfg\":\"" +
         jesc(viols[i].cfg) + "\",\"case_no\":" + std::to_string(viols[i].case_no) + "}";
  }
  j += "],\n\"samples\":[";
  for (size_t i = 0; i < samples.size(); ++i) j += (i ? "," : "") + ("\"" + jesc(samples[i]) + "\"");
  j += "]\n}\n";
  if (!a.out.empty()) {
    FILE* f = fopen(a.out.c_str(), "w");
    if (f) {
      fwrite(j.data(), 1, j.size(), f);
      fclose(f);
    }
    std::string fpp = a.out + ".fp";
    f = fopen(fpp.c_str(), "wb");
    if (f) {
      for (uint64_t h : fps) fwrite(&h, 8, 1, f);
      fclose(f);
    }
  } else
    fputs(j.c_str(), stdout);
  return viols.empty() ? 0 : 1;
}

int main(int argc, char** argv) {
  H = vrt_harness();
  Args a;
  for (int i = 1; i < argc; ++i) {
    std::string k = argv[i];
    auto val = [&]() -> std::string { return i + 1 < argc ? argv[++i] : ""; };
    if (k == "--list" || k == "--campaign")
      a.mode = k;
    else if (k == "--replay") {
      a.mode = k;
      a.replay_file = val();
    } else if (k == "--prop")
      a.prop = val();
    else if (k == "--seed")
      a.seed = strtoull(val().c_str(), nullptr, 10);
    else if (k == "--cases")
      a.cases = strtoull(val().c_str(), nullptr, 10);
    else if (k == "--worker")
      a.worker = atoi(val().c_str());
    else if (k == "--nworkers")
      a.nworkers = atoi(val().c_str());
    else if (k == "--time-s")
      a.time_s = atof(val().c_str());
    else if (k == "--weak")
      a.weak = true;
    else if (k == "--solo")
      a.solo = true;
    else if (k == "--plain-pct")
      a.plain_pct = atoi(val().c_str());
    else if (k == "--step-cap")
      a.step_cap = (uint32_t)atoi(val().c_str());
    else if (k == "--window")
      a.window = (uint32_t)atoi(val().c_str());
    else if (k == "--out")
      a.out = val();
    else if (k == "--replay-dir")
      a.replay_dir = val();
    else if (k == "--tag")
      a.tag = val();
    else if (k == "--cfg")
      a.cfgs = val();
    else if (k == "--variant")
      a.variant = val();
    else if (k == "--samples")
      a.samples = atoi(val().c_str());
    else if (k == "--times")
      a.times = atoi(val().c_str());
    else if (k == "--max-fail")
      a.max_fail = atoi(val().c_str());
    else if (k == "--shrink-s")
      a.shrink_s = atof(val().c_str());
    else if (k == "--watchdog-s")
      g_watchdog_s = atoi(val().c_str());
    else if (k == "--cpu") {
      // all threads of a case pass one token: keeping them on one core avoids cross-core wake-ups (4x throughput)
      cpu_set_t set;
      CPU_ZERO(&set);
      CPU_SET(atoi(val().c_str()), &set);
      sched_setaffinity(0, sizeof set, &set);
    }
    else if (k == "--known") {
      std::string p = val();
      size_t e = p.find(':');
      a.known.emplace_back(p.substr(0, e), e == std::string::npos ? "" : p.substr(e + 1));
    } else if (k == "--param") {
      std::string p = val();
      size_t e = p.find('=');
      if (e != std::string::npos) a.params.emplace_back(p.substr(0, e), strtoull(p.c_str() + e + 1, nullptr, 10));
    } else {
      fprintf(stderr, "unknown argument %s\n", k.c_str());
      return 2;
    }
  }
  if (a.mode == "--list") {
    printf("{\"harness\":\"%s\",\"cfgs\":[", H->name);
    for (int i = 0; i < H->ncfg; ++i) printf("%s{\"name\":\"%s\",\"tags\":\"%s\"}", i ? "," : "", H->cfgs[i].name, H->cfgs[i].tags);
    printf("]}\n");
    return 0;
  }
  arena_map();
  S = (Shm*)mmap(nullptr, sizeof(Shm), PROT_READ | PROT_WRITE, MAP_SHARED | MAP_ANONYMOUS, -1, 0);
  if (S == MAP_FAILED) {
    perror("mmap");
    return 2;
  }
  memset(S, 0, sizeof(Shm));
  if (a.mode == "--replay") return do_replay(a);
  if (a.mode == "--campaign") return do_campaign(a);
  fprintf(stderr, "usage: %s --list | --campaign ... | --replay FILE\n", argv[0]);
  return 2;
}
