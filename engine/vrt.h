// vrt — verification runtime for xenium (Engine A, "vsched").
// Public interface between harness translation units (compiled with -fsanitize=thread, no libtsan)
// and the runtime (vrt.cpp, compiled without instrumentation).
#pragma once
#include <cstddef>
#include <cstdint>
#include <cstdarg>

extern "C" {
// mo: values of std::memory_order (relaxed=0, consume=1, acquire=2, release=3, acq_rel=4, seq_cst=5)
void vrt_atomic_load(const volatile void* a, unsigned sz, int mo, void* out);
void vrt_atomic_store(volatile void* a, unsigned sz, int mo, const void* val);
void vrt_atomic_xchg(volatile void* a, unsigned sz, int mo, const void* val, void* out);
int vrt_atomic_cas(volatile void* a, unsigned sz, int mo_s, int mo_f, void* expected, const void* desired, int weak);
// op: 0 add, 1 sub, 2 and, 3 or, 4 xor ; operand and result are 64-bit, truncated to sz
uint64_t vrt_atomic_rmw(volatile void* a, unsigned sz, int mo, int op, uint64_t operand);
void vrt_fence(int mo);
uint64_t vrt_random();
void vrt_yield();
void vrt_mutex_lock(void* m);
int vrt_mutex_trylock(void* m);
void vrt_mutex_unlock(void* m);
}

namespace vrt {

constexpr int MAXT = 8; // max logical threads per case (incl. main)

// ---- threads -----------------------------------------------------------------------------------
using thread_fn = void (*)(void*);
int spawn(thread_fn fn, void* arg); // returns logical thread id
void join(int tid);
int self();
int live_threads(); // logical threads spawned and not yet finished (excluding main)

// ---- scheduling points -------------------------------------------------------------------------
void point(); // harness-marked scheduling point
uint64_t now(); // global step counter == logical time
struct Stamp {
  uint64_t step;
  uint32_t vc[MAXT];
};
void stamp(Stamp* s);               // logical time + vector clock of the calling thread (ticks own component)
bool hb(const Stamp& a, int a_tid, const Stamp& b); // a (taken by thread a_tid) happens-before b
bool weak_mode();
bool solo_mode();
void op_begin(int lockfree); // brackets one API operation (solo mode / step counting)
void op_end();
uint64_t my_steps();            // scheduling points executed by the calling thread
void concurrent_phase(bool on); // harness marks the concurrent part of a case (sequential parts: hang == violation)

// ---- generation --------------------------------------------------------------------------------
uint32_t choose(uint32_t n);          // program choice in [0,n)
uint32_t weighted(const uint32_t* w, uint32_t n);
const char* prop();                   // property id the case is run for ("C01", ...)
uint64_t param(const char* name, uint64_t dflt); // numeric run parameter (tier knobs)

// ---- verdicts / evidence -----------------------------------------------------------------------
[[noreturn]] void fail(const char* kind, const char* fmt, ...) __attribute__((format(printf, 2, 3)));
[[noreturn]] void inconclusive(const char* why);
[[noreturn]] void pass_now();
void label(const char* name);       // counts once per case
void nontrivial();                  // case satisfies the property's non-triviality rule
void count(const char* name, uint64_t n); // adds n to a named per-case counter (summed over the campaign)
void fp(uint64_t h);                // feed the case fingerprint
bool want_desc();
void desc(const char* fmt, ...) __attribute__((format(printf, 1, 2))); // append to the case description

// ---- memory ------------------------------------------------------------------------------------
enum : uint8_t { TAG_DEFAULT = 0, TAG_HARNESS = 1, TAG_CLIENT = 2 };
uint8_t set_alloc_tag(uint8_t tag);                 // per thread; returns previous
struct TagScope {
  uint8_t prev;
  explicit TagScope(uint8_t t) : prev(set_alloc_tag(t)) {}
  ~TagScope() { set_alloc_tag(prev); }
};
size_t live_blocks(uint8_t tag);                    // live arena blocks with this tag
size_t live_bytes(uint8_t tag);
uint64_t reused_blocks();                            // allocations served from a freed block (--param reuse=1)
uint64_t alloc_count(uint8_t tag);                   // blocks ever allocated with this tag in this case
bool is_live(const void* p);                        // p points into a live arena block
bool is_freed(const void* p);
void check_access(const void* p, size_t n, bool write); // explicit O-MEM / O-RACE check for harness accesses
void race_ignore(bool on);                          // per thread: harness bookkeeping is exempt from O-RACE

} // namespace vrt
