"""Per-property job tables for vcheck.py: which harness binaries run, with which generators and budgets.

A job = one harness translation unit (source + defines + build variant) and one campaign configuration.
Budgets are case counts (never per-case time limits); time_s is only a safety net and ending there is
reported as a health warning, never as a violation.
"""

# harness name (as reported by the binary) -> (source, defines)
HARNESSES = {
    "rclient0": ("rclient.cpp", ["RCLIENT_GROUP=0"]),
    "rclient1": ("rclient.cpp", ["RCLIENT_GROUP=1"]),
    "rclient2": ("rclient.cpp", ["RCLIENT_GROUP=2"]),
}


def job(harness, cases, workers=4, variant="prod", **kw):
    src, defs = HARNESSES[harness]
    j = {"harness": harness, "src": src, "defines": defs, "variant": variant, "cases": cases, "workers": workers}
    j.update(kw)
    return j


def jobs_for_replay(rp):
    h = rp.get("harness")
    if h not in HARNESSES:
        return []
    return [job(h, 0, variant=rp.get("variant", "prod"))]


def scale(tier, quick, thorough):
    return thorough if tier == "thorough" else quick


def c01_jobs(tier):
    n = scale(tier, 160000, 6000000)
    tag = scale(tier, "quick", "")
    return [
        job("rclient0", n, workers=5, tag=tag, plain_pct=25),
        job("rclient1", n, workers=5, tag=tag, plain_pct=25),
        job("rclient2", n, workers=6, tag=tag, plain_pct=25),
    ]


PROPS = {
    "C01": {
        "jobs": c01_jobs,
        "rule": "case = generated reclaimer-client program (1-3 shared concurrent_ptr cells; 2-4 threads x up to 10 operations from "
                "publish / unlink+reclaim / acquire / acquire_if_equal / use / copy / move / swap / reset / guard-from-marked_ptr / "
                "region enter+leave) x reclaimer configuration x generated schedule (uniform, random quantum, PCT, long stall, k "
                "preemptions; 25% of the cases also make instrumented plain accesses scheduling points). Oracles: O-GUARD (no deleter / "
                "destructor while a registered guard protects the object), O-MEM (quarantine allocator: any instrumented or atomic access "
                "to freed memory), canary and identity of the guarded object, xenium's own assertions. Non-trivial: a deleter ran while "
                "another thread had a guard operation in progress or a registered guard, AND a context switch happened inside a guard "
                "operation. Distinct: hash of the decoded program + order of destructions, per configuration.",
        "nontrivial_floor": 0.01,
        "assumptions": [
            "sequentially consistent interleavings only in this check (weak executions are C03's tier)",
            "client programs follow the documented protocol by construction: retire once, after a successful unlinking CAS; guards and "
            "region guards stay on their thread and are released before it exits",
            "schedules are sampled, not enumerated",
        ],
    },
}
