"""Per-property job tables for vcheck.py: which harness binaries run, with which generators and budgets.

A job = one harness translation unit (source + defines + build variant) and one campaign configuration.
Budgets are case counts (never per-case time limits); time_s is only a safety net and ending there is
reported as a health warning, never as a violation.
"""

# harness name (as reported by the binary) -> (source, defines)
HARNESSES = {
    "rclient0": ("rclient.cpp", ["RCLIENT_GROUP=0"]),
    "rclient1": ("rclient.cpp", ["RCLIENT_GROUP=1"]),
    "rclient2": ("rclient.cpp", ["RCLIENT_GROUP=2"]),
    "qhist0": ("qhist.cpp", ["QHIST_GROUP=0"]),
    "qhist1": ("qhist.cpp", ["QHIST_GROUP=1"]),
    "qhist2": ("qhist.cpp", ["QHIST_GROUP=2"]),
    "qhist3": ("qhist.cpp", ["QHIST_GROUP=3"]),
    "qhist4": ("qhist.cpp", ["QHIST_GROUP=4"]),
    "mhist0": ("mhist.cpp", ["MHIST_GROUP=0"]),
    "mhist1": ("mhist.cpp", ["MHIST_GROUP=1"]),
    "mhist2": ("mhist.cpp", ["MHIST_GROUP=2"]),
    "vhist0": ("vhist.cpp", ["VHIST_GROUP=0"]),
    "vhist1": ("vhist.cpp", ["VHIST_GROUP=1"]),
    "vhist2": ("vhist.cpp", ["VHIST_GROUP=2"]),
    "vhist3": ("vhist.cpp", ["VHIST_GROUP=3"]),
    "dhist": ("dhist.cpp", []),
    "lrhist": ("lrhist.cpp", []),
    "slhist": ("slhist.cpp", []),
    "ptralg": ("ptralg.cpp", []),
    "slots": ("slots.cpp", []),
    "litmus": ("litmus.cpp", []),
}


def job(harness, cases, workers=4, variant="prod", **kw):
    src, defs = HARNESSES[harness]
    j = {"harness": harness, "src": src, "defines": defs, "variant": variant, "cases": cases, "workers": workers}
    j.update(kw)
    return j


def jobs_for_replay(rp):
    h = rp.get("harness")
    if h not in HARNESSES:
        return []
    return [job(h, 0, variant=rp.get("variant", "prod"))]


def scale(tier, quick, thorough):
    return thorough if tier == "thorough" else quick


# ---- Engine B ("vfuzz"): harness/fuzzseq.cpp, native ASan+UBSan build driven by libFuzzer (coverage guided), one thread.
# property -> container families of the fuzz target; runs per worker process are case counts (never time limits)
FUZZ = {
    "C04": ["q_ms", "q_ram", "q_nik"],
    "C05": ["q_nikb", "q_vyu"],
    "C06": ["q_kk", "q_kb"],
    "C07": ["q_ms", "q_ram", "q_nik", "q_nikb", "q_vyu", "q_kk", "q_kb"],
    "C08": ["hm_map", "hm_map_memo", "hm_set"],
    "C09": ["hm_map", "hm_map_memo", "hm_set"],
    "C10": ["vyu_ii", "vyu_ss", "vyu_sc"],
    "C11": ["vyu_ii", "vyu_ss", "vyu_sc"],
    "C12": ["deque_grow", "deque_fixed"],
    "C14": ["seqlock"],
}
FUZZ_FAMILY_INDEX = ["vyu_ii", "vyu_ss", "vyu_sc", "hm_map", "hm_map_memo", "hm_set", "deque_grow", "deque_fixed", "q_ms", "q_ram", "q_nik", "q_nikb",
                     "q_vyu", "q_kk", "q_kb", "seqlock"]
FUZZ_RULE = ("Engine B (vfuzz): libFuzzer mutates byte strings that are decoded into (family, configuration, operation sequence) for the property's "
             "container families; every operation's result is compared with a reference model (std::map / std::deque / byte image), with a full "
             "scan, per-key lookups and an element census at the end, under AddressSanitizer + UBSan with the library's assertions enabled. "
             "A case is non-trivial if it executed at least 3 successful insertions and 1 successful removal (maps: and reached 4 stored keys; "
             "growing deque: grew at a non-zero index offset; fixed deque: more than 2 x capacity pushes; seqlock: at least 3 operations). "
             "corpus_units counts the coverage-distinct inputs libFuzzer kept.")


def fuzz_job(prop, tier):
    if prop not in FUZZ:
        return None
    fast = prop in ("C12", "C14")  # deque / seqlock cases cost a few microseconds, map cases ~100
    queues = prop in ("C04", "C05", "C06", "C07")
    quick = 200000 if fast else 80000 if queues else 40000
    thorough = 3000000 if fast else 2000000 if queues else 1000000
    return {"families": FUZZ[prop], "workers": scale(tier, 4, 16), "runs": scale(tier, quick, thorough), "max_len": scale(tier, 192, 384)}


def c01_jobs(tier):
    n = scale(tier, 160000, 6000000)
    tag = scale(tier, "quick", "")
    return [
        job("rclient0", n, workers=5, tag=tag, plain_pct=25),
        job("rclient1", n, workers=5, tag=tag, plain_pct=25),
        job("rclient2", n, workers=6, tag=tag, plain_pct=25),
    ]


def c02_jobs(tier):
    n = scale(tier, 100000, 4000000)
    tag = scale(tier, "quick", "")
    return [
        job("rclient0", n, workers=5, tag=tag),
        job("rclient1", n, workers=5, tag=tag),
        job("rclient2", n, workers=6, tag=tag),
    ]


def c17_jobs(tier):
    n = scale(tier, 40000, 1500000)
    tag = scale(tier, "quick", "")
    return [
        job("rclient0", n, workers=5, tag=tag, step_cap=60000),
        job("rclient1", n, workers=5, tag=tag, step_cap=60000),
        job("rclient2", n, workers=6, tag=tag, step_cap=60000),
    ]


def qtag(tier, prop):
    return prop + ("+quick" if tier != "thorough" else "")


def c04_jobs(tier):
    n = scale(tier, 60000, 2500000)
    return [job("qhist0", n, workers=5, tag=qtag(tier, "C04"), plain_pct=15),
            job("qhist1", n, workers=5, tag=qtag(tier, "C04"), plain_pct=15),
            job("qhist2", n, workers=6, tag=qtag(tier, "C04"), plain_pct=15)]


def c05_jobs(tier):
    n = scale(tier, 240000, 6000000)
    return [job("qhist3", n, workers=16, tag=qtag(tier, "C05"), plain_pct=15)]


def c06_jobs(tier):
    n = scale(tier, 160000, 5000000)
    return [job("qhist4", n, workers=12, tag=qtag(tier, "C06"), plain_pct=15),
            job("qhist4", scale(tier, 1600, 40000), workers=4, tag="large", step_cap=40000000, params={"seq_op_cap": 2000000})]


def c07_jobs(tier):
    n = scale(tier, 40000, 1500000)
    return [job("qhist%d" % g, n, workers=w, tag=qtag(tier, "C07")) for g, w in ((0, 3), (1, 4), (2, 3), (3, 3), (4, 3))]


def c08_jobs(tier):
    n = scale(tier, 50000, 2000000)
    tag = scale(tier, "quick", "")
    js = [job("mhist%d" % g, n, workers=4, tag=tag, plain_pct=15) for g in (0, 1, 2)]
    js += [job("mhist%d" % g, scale(tier, 6000, 300000), workers=1, tag=tag, params={"sequential": 1}, step_cap=200000) for g in (0, 1, 2)]
    return js


def c09_jobs(tier):
    n = scale(tier, 50000, 2000000)
    tag = scale(tier, "quick", "")
    return [job("mhist0", n, workers=5, tag=tag, plain_pct=15), job("mhist1", n, workers=5, tag=tag, plain_pct=15),
            job("mhist2", n, workers=6, tag=tag, plain_pct=15)]


def c10_jobs(tier):
    n = scale(tier, 30000, 1500000)
    tag = scale(tier, "quick", "")
    js = [job("vhist%d" % g, n, workers=3, tag=tag, plain_pct=10, step_cap=60000) for g in (0, 1, 2, 3)]
    js += [job("vhist%d" % g, scale(tier, 4000, 200000), workers=1, tag=tag, params={"sequential": 1}, step_cap=300000) for g in (0, 1, 2, 3)]
    return js


def c11_jobs(tier):
    n = scale(tier, 30000, 1500000)
    tag = scale(tier, "quick", "")
    js = [job("vhist%d" % g, n, workers=3, tag=tag, plain_pct=10, step_cap=60000) for g in (0, 1, 2, 3)]
    js += [job("vhist%d" % g, scale(tier, 6000, 300000), workers=1, tag=tag, params={"sequential": 1}, step_cap=300000) for g in (0, 1, 2, 3)]
    return js


def c12_jobs(tier):
    tag = scale(tier, "quick", "")
    return [job("dhist", scale(tier, 200000, 6000000), workers=13, tag=tag, plain_pct=15),
            job("dhist", scale(tier, 20000, 600000), workers=3, tag=tag, params={"sequential": 1}, step_cap=400000)]


def c13_jobs(tier):
    return [job("lrhist", scale(tier, 240000, 6000000), workers=16, plain_pct=20)]


def c14_jobs(tier):
    return [job("slhist", scale(tier, 240000, 6000000), workers=16, tag=scale(tier, "quick", ""), plain_pct=10)]


def c15_jobs(tier):
    n = scale(tier, 60000, 2000000)
    tag = scale(tier, "quick", "")
    return [job("ptralg", scale(tier, 8000, 400000), workers=3, tag="marked"),
            job("ptralg", scale(tier, 20000, 400000), workers=1, tag="cptr"),
            job("rclient0", n, workers=3, tag=tag, params={"algebra": 1}),
            job("rclient1", n, workers=3, tag=tag, params={"algebra": 1}),
            job("rclient2", n, workers=3, tag=tag, params={"algebra": 1}),
            job("rclient0", n, workers=1, tag=tag), job("rclient1", n, workers=1, tag=tag), job("rclient2", n, workers=1, tag=tag)]


def c18_jobs(tier):
    return [job("slots", scale(tier, 120000, 4000000), workers=16, tag=scale(tier, "quick", ""), step_cap=400000)]


def c16_jobs(tier):
    n = scale(tier, 12000, 500000)
    tag = scale(tier, "quick", "")
    common = dict(solo=True, step_cap=200000, params={"solo_bound": 30000})
    js = []
    for h in ("rclient0", "rclient1", "rclient2", "qhist0", "qhist1", "qhist2", "mhist0", "mhist1", "vhist0", "vhist2"):
        js.append(job(h, n, workers=1, tag=tag, **common))
    # the bounded queues have "slot claimed but not yet published" states that only a stop at one particular step reaches:
    # more cases, more workers (a seeded spin in vyukov try_push_weak needed about 10^4 cases per configuration)
    nb = scale(tier, 80000, 2000000)
    js.append(job("qhist3", nb, workers=3, tag="C05" + ("+quick" if tier != "thorough" else ""), **common))
    js.append(job("qhist4", nb // 2, workers=2, tag="C06" + ("+quick" if tier != "thorough" else ""), **common))
    js.append(job("dhist", n, workers=1, tag=tag, **common))
    js.append(job("lrhist", n, workers=1, **common))
    js.append(job("slhist", n, workers=1, tag=tag, **common))
    for j in js:
        if j["harness"].startswith("qhist") and not j.get("tag"):
            j["tag"] = "quick" if tier != "thorough" else ""
    return js


def c03_jobs(tier):
    n = scale(tier, 9000, 600000)
    tag = scale(tier, "quick", "")
    js = []
    windows = [16] if tier != "thorough" else [16, 64, 256]
    for variant in ("prod_ndebug", "tsan_ndebug"):
        for w in windows:
            common = dict(weak=True, window=w, variant=variant, step_cap=60000, time_s=scale(tier, 45, 3600))
            for h in ("rclient0", "rclient1", "rclient2", "qhist0", "qhist1", "qhist2", "qhist3", "qhist4", "mhist0", "mhist1", "vhist0", "vhist1", "vhist2",
                      "dhist", "lrhist", "slhist"):
                t = tag
                if h == "qhist3":
                    t = "C05" + ("+quick" if tier != "thorough" else "")
                elif h == "qhist4":
                    t = "C06" + ("+quick" if tier != "thorough" else "")
                js.append(job(h, n if variant.startswith("prod") else n // 2, workers=1, tag=t, **common))
    return js


NOT_YET = {}

PROPS = {
    "C01": {
        "jobs": c01_jobs,
        "level_text": "Sampled exploration: several hundred thousand generated protocol-conforming client programs x reclaimer "
                      "configurations x generated schedules per quick run (millions in the thorough tier), each checked against the guard "
                      "registry (no destruction while guarded), the quarantine allocator (no access to freed memory), object identity/canary "
                      "and xenium's own assertions. Finds violations, never proves absence.",
        "level_note": "Trusted: the scheduler/allocator runtime (engine/vrt.cpp) and the client generator's protocol conformance; sequentially "
                      "consistent interleavings only (weak executions belong to C03); schedules are sampled.",
        "technique": "property-based testing: generated client programs + generated schedules vs guard-registry / quarantine-allocator oracle, trace shrinking",
        "rule": "case = generated reclaimer-client program (1-3 shared concurrent_ptr cells; 2-4 threads x up to 10 operations from "
                "publish / unlink+reclaim / acquire / acquire_if_equal / use / copy / move / swap / reset / guard-from-marked_ptr / "
                "region enter+leave) x reclaimer configuration x generated schedule (uniform, random quantum, PCT, long stall, k "
                "preemptions; 25% of the cases also make instrumented plain accesses scheduling points). Oracles: O-GUARD (no deleter / "
                "destructor while a registered guard protects the object), O-MEM (quarantine allocator: any instrumented or atomic access "
                "to freed memory), canary and identity of the guarded object, xenium's own assertions. Non-trivial: a deleter ran while "
                "another thread had a guard operation in progress or a registered guard, AND a context switch happened inside a guard "
                "operation. Distinct: hash of the decoded program + order of destructions, per configuration.",
        "nontrivial_floor": 0.01,
        "assumptions": [
            "sequentially consistent interleavings only in this check (weak executions are C03's tier)",
            "client programs follow the documented protocol by construction: retire once, after a successful unlinking CAS; guards and "
            "region guards stay on their thread and are released before it exits",
            "schedules are sampled, not enumerated",
        ],
    },
    "C02": {
        "jobs": c02_jobs,
        "level_text": "Sampled exploration of client programs with thread lifecycles; the lifecycle registry decides exactly-once destruction by "
                      "the matching deleter during the run and a both-directions census after a public-API flush at the quiescent end.",
        "level_note": "Trusted: runtime, generator, and the flush protocol (64 guard+retire rounds with region entry) being sufficient for every "
                      "configuration in the menu (validated: no leak reports on the unchanged tree, leak mutants are caught).",
        "technique": "property-based testing: generated programs with thread generations + generated schedules vs object-lifecycle census",
        "rule": "case = generated reclaimer-client program with thread lifecycles (2-6 thread programs, at most 1-3 alive at once, "
                "later ones start while or after earlier ones exit with non-empty retire lists) x reclaimer configuration x generated "
                "schedule; after the last join the main thread runs a public-API-only flush (64 rounds of region enter, guard a fresh "
                "dummy node, reclaim it). Oracle (O-LIFE): every deleter call is for a retired, not yet destroyed object and carries the "
                "deleter instance passed for that object; nothing is destroyed without its deleter; at the quiescent end every retired "
                "object was destroyed exactly once and no unretired object was destroyed. Non-trivial: some object was destroyed by a "
                "thread other than the one that retired it (hand-over happened). Distinct: program + order of destructions.",
        "nontrivial_floor": 0.02,
        "assumptions": ["sequentially consistent interleavings", "flush dummies are exempt from the census",
                        "'eventually' is read as: after all threads exited and the flush ran"],
    },
    "C17": {
        "jobs": c17_jobs,
        "level_text": "Sampled exploration of thread-generation histories; C01/C02 oracles across record reuse plus a metamorphic allocation-"
                      "accounting oracle (bookkeeping blocks flat over sequential generations, bounded by the peak of live threads).",
        "level_note": "Trusted: runtime and allocator tagging (client nodes vs bookkeeping); the flatness relation is exact only for the "
                      "sequential phase-2 generations, which is where it is asserted.",
        "technique": "property-based testing: generated generation histories + schedules vs lifecycle census and metamorphic allocation accounting",
        "rule": "case = reclaimer-client program with 3-10 thread programs in overlapping generations (at most 1-3 alive at once; "
                "each does guarded accesses and retirements and exits at an operation boundary) x reclaimer configuration x generated "
                "schedule; then phase 2: five identical threads strictly one after the other, each followed by the public flush. "
                "Oracles: the C01 oracles (guard registry, quarantine allocator) and the C02 census across record reuse; the number of "
                "live bookkeeping blocks (arena blocks that are neither client nodes nor harness memory) must be flat over the last "
                "three sequential generations and below 8+6*(peak simultaneously live threads). Non-trivial: a thread started without "
                "any new bookkeeping allocation (its record was recycled) while at least two threads were alive. Distinct: program + "
                "order of destructions.",
        "nontrivial_floor": 0.02,
        "assumptions": ["sequentially consistent interleavings", "bookkeeping = every heap block allocated by xenium code outside client node allocations"],
    },
    "C04": {
        "jobs": c04_jobs,
        "level_text": "Sampled exploration of queue histories: every generated history (sequential prefix, 2-4 concurrent threads, final "
                      "drain) is decided by an exact linearizability check against the sequential FIFO specification.",
        "level_note": "Trusted: runtime, the Wing-Gong/Lowe checker (engine/lin.hpp), precedence = real-time order of the harness's "
                      "invocation/response stamps under the scheduler; SC interleavings only here.",
        "technique": "property-based testing: generated queue programs + generated schedules vs linearizability checker (FIFO spec) and drain conservation; plus coverage-guided fuzzing (libFuzzer, ASan+UBSan) of decoded sequential operation sequences vs a reference model",
        "rule": "case = queue configuration (michael_scott / ramalhete with 1-3 entries per node and 0-2 pop retries / nikolaev with 1-4 "
                "entries per node) x element type (tracked value, unique_ptr, raw pointer, uint32) x reclaimer x program (prefix of up to 12 "
                "sequential pushes/pops, 2-4 threads x up to 6 push/try_pop/pop operations, drain in 7 of 8 cases; in half of the cases all threads or the first thread run inside "
                "one region_guard of the reclaimer) x generated schedule x allocator mode (quarantine, or address reuse on every second worker). "
                "Oracle: Wing-Gong linearizability search against the FIFO specification (pop-empty only on the empty state), element "
                "lifecycle registry, quarantine allocator, xenium's assertions. Non-trivial: operations of different threads overlap AND a "
                "node was allocated inside the concurrent part. Distinct: program + history (ids and results).",
        "nontrivial_floor": 0.2,
        "assumptions": ["sequentially consistent interleavings", "histories of at most 64 operations"],
    },
    "C05": {
        "jobs": c05_jobs,
        "level_text": "Sampled exploration of bounded-queue histories decided by an exact linearizability check against the bounded FIFO "
                      "specification with the permissive readings the statement allows (weak failures always allowed and no-ops; "
                      "nikolaev_bounded full = stored elements + overlapping operations >= capacity).",
        "level_note": "Trusted: runtime, checker, specification encoding; SC interleavings only here.",
        "technique": "property-based testing: generated bounded-queue programs + schedules vs linearizability checker (bounded FIFO spec); plus coverage-guided fuzzing (libFuzzer, ASan+UBSan) of decoded sequential operation sequences vs a reference model",
        "rule": "case = vyukov_bounded_queue (size 2/4/8; strong, weak and default operations mixed) or nikolaev_bounded_queue (requested "
                "capacity 1,2,3,4,5,8, rounded up; more threads than slots included, see known finding F23) x element type x program (prefix of up to 18 operations so that the ring wraps, 2-4 threads "
                "x up to 6 operations, drain with strong pops) x generated schedule. Oracle: linearizability against the bounded FIFO "
                "specification, lifecycle registry, quarantine allocator. Non-trivial: a full/empty verdict was returned while another "
                "operation overlapped AND more values were accepted than the capacity (ring wrapped). Distinct: program + history.",
        "nontrivial_floor": 0.2,
        "assumptions": ["sequentially consistent interleavings"],
    },
    "C06": {
        "jobs": c06_jobs,
        "level_text": "Sampled exploration of k-FIFO histories decided by a linearizability check against the k-relaxed FIFO specification; "
                      "the start slot of every segment scan (utils::random) is a recorded, generated decision.",
        "level_note": "Trusted: runtime, checker, specification encoding (pop = any of the k oldest; empty allowed with fewer than k elements "
                      "under overlap; bounded push failure needs (segments-1)*k+1 stored elements).",
        "technique": "property-based testing: generated programs + schedules + generated random-slot decisions vs linearizability checker (k-FIFO spec); plus coverage-guided fuzzing (libFuzzer, ASan+UBSan) of decoded sequential operation sequences vs a reference model",
        "rule": "case = kirsch_kfifo_queue (k 1-4, reclaimer menu) or kirsch_bounded_kfifo_queue (k 1-3, 1-4 segments) x element type x "
                "program x generated schedule x generated values for every utils::random() call. Oracle: linearizability against the "
                "k-relaxed FIFO, conservation through the drain, lifecycle registry, quarantine allocator, hang detection in sequential "
                "phases. Non-trivial: operations overlapped AND (the drain order differs from push order, or a segment was allocated in the "
                "concurrent part, or a failure verdict was returned under overlap). Distinct: program + history.",
        "nontrivial_floor": 0.2,
        "assumptions": ["sequentially consistent interleavings"],
    },
    "C07": {
        "jobs": c07_jobs,
        "level_text": "Sampled exploration: owning payloads through all seven queue types, queue destroyed with elements inside in 3 of 4 "
                      "cases; the element lifecycle registry decides exactly-once hand-over or destruction.",
        "level_note": "Trusted: runtime, Tracked payload bookkeeping; by-value try_push APIs may destroy a rejected value through their own "
                      "parameter object (counted as the caller's copy).",
        "technique": "property-based testing: generated programs + schedules vs element-lifecycle census after queue destruction; plus coverage-guided fuzzing (libFuzzer, ASan+UBSan) of decoded sequential operation sequences vs a reference model",
        "rule": "case = queue type (michael_scott, ramalhete, nikolaev, nikolaev_bounded, vyukov_bounded, kirsch_kfifo, kirsch_bounded_kfifo) "
                "x owning element kind (tracked move-only value, unique_ptr<Tracked>, raw Tracked* owned by the harness) x program x "
                "schedule; the queue is destroyed without draining in 3 of 4 cases. Oracle: every element content is alive in exactly one "
                "place, handed to at most one consumer, destroyed exactly once overall (by consumer, by the queue, or by the caller's own "
                "rejected argument), never destroyed by the queue when it is a raw pointer, a failed forwarding-reference try_push leaves "
                "the caller's object intact; quarantine allocator for double frees. Non-trivial: the queue was destroyed non-empty after "
                "internal nodes/segments had been allocated (or it is a ring). Distinct: program + history.",
        "nontrivial_floor": 0.1,
        "assumptions": ["sequentially consistent interleavings"],
    },
    "C08": {
        "jobs": c08_jobs,
        "level_text": "Sampled exploration of set/map histories decided by an exact linearizability check against the sequential set/map "
                      "specification with value identity (every insertion carries a unique id that lookups and iterators must report), plus "
                      "long single-threaded sequences checked step by step against the same model.",
        "level_note": "Trusted: runtime, checker, the encoding of erase(iterator) as 'removes exactly the referenced element if it is still "
                      "present'; traversal yields are encoded as lookups that may take effect anywhere between traversal begin and the yield.",
        "technique": "property-based testing: generated set/map programs + schedules vs linearizability checker (set/map spec with value identity), final iteration vs model; plus coverage-guided fuzzing (libFuzzer, ASan+UBSan) of decoded sequential operation sequences vs a reference model",
        "rule": "case = container configuration (list based set with less/greater comparator; hash map with 1/2/4 buckets, identity / "
                "constant / 2-valued / order-reversing hash, memoize_hash on/off, custom map_to_bucket; int keys or a key type whose moved-from "
                "state is observable) x reclaimer x allocator mode (quarantine / address reuse) x optional region_guard around whole threads x program (prefix, 1-3 "
                "updater threads x up to 6 operations from emplace / emplace_or_get / get_or_emplace / get_or_emplace_lazy / operator[] / "
                "erase(key) / find / contains / find+erase(iterator), optionally a traversing thread) over 3-6 keys x generated schedule; "
                "plus sequential cases of 8-40 operations. Oracle: Wing-Gong linearizability search incl. the final full iteration which "
                "must equal the model state; quarantine allocator; assertions. Non-trivial: two operations on the same key from different "
                "threads overlap and one is a successful update (sequential cases: at least 12 operations). Distinct: program + history.",
        "nontrivial_floor": 0.1,
        "assumptions": ["sequentially consistent interleavings", "key universe of at most 8 keys"],
    },
    "C09": {
        "jobs": c09_jobs,
        "level_text": "Sampled exploration of a traversing thread (begin, ++, it++, copies, erase(iterator), repeated dereference) against 1-3 "
                      "updater threads; decided by the yield rules (a)-(e) of DESIGN.md: memory safety, presence during the traversal (as "
                      "lookups inside the linearizability check), no element twice, no stable element skipped, erase(iterator) semantics.",
        "level_note": "Trusted: runtime, checker; 'stable' elements are those inserted by the prefix and never touched by updaters.",
        "technique": "property-based testing: generated traversals + concurrent updates + schedules vs weak-consistency yield rules and linearizability checker; plus coverage-guided fuzzing (libFuzzer, ASan+UBSan) of decoded sequential operation sequences vs a reference model",
        "rule": "case = container configuration (as C08) x reclaimer x program with one traversing thread and 1-3 updaters over 3-6 keys of "
                "which the 1-2 largest are stable (inserted first, never touched by updaters) x generated schedule. Oracle: quarantine "
                "allocator on every access of the iterator, every yield must be linearizable as a lookup between traversal begin and the "
                "yield, no (key,id) twice, every stable element yielded by a complete traversal, erase(iterator) removes the referenced "
                "element and returns a following one, traversal ends within 40 steps. Non-trivial: an updater's successful insert/erase "
                "completed between two steps of the iterator. Distinct: program + history.",
        "nontrivial_floor": 0.1,
        "assumptions": ["sequentially consistent interleavings"],
    },
    "C10": {
        "jobs": c10_jobs,
        "level_text": "Sampled exploration of vyukov_hash_map histories (all five key/value storage specialisations, initial capacities 1-4 "
                      "forcing repeated grows and 128/256 with extension items, colliding keys) decided by an exact linearizability check "
                      "with accessor contents, plus long single-threaded sequences against the same model.",
        "level_note": "Trusted: runtime, checker; blocking operations are allowed to wait, deadlock/livelock is reported; SC interleavings here.",
        "technique": "property-based testing: generated map programs + schedules vs linearizability checker (map spec with value identity), final iteration vs model; plus coverage-guided fuzzing (libFuzzer, ASan+UBSan) of decoded sequential operation sequences vs a reference model",
        "rule": "case = storage specialisation (int->int, int->managed_ptr, string->managed_ptr, int->string, string->int, string->string "
                "with colliding / constant hash) x reclaimer (and value_reclaimer) x initial capacity {1,2,4,128,256} x 4-8 keys that share "
                "buckets x program (prefix, 1-3 threads x up to 6 operations from emplace / get_or_emplace / get_or_emplace_lazy / erase / "
                "extract / try_get_value / find, in a quarter of the cases an iterator session) x generated schedule; plus sequential "
                "cases. Oracle: linearizability with accessor contents (extract yields the removed value, try_get_value a value of that "
                "key), string values/keys must be values ever stored (no torn value), final iteration equals the model, every bucket "
                "unlocked at the end (probe), value lifecycle, quarantine allocator. Non-trivial: a try_get_value overlapped a successful "
                "erase/extract/erase(iterator), or the map grew in the concurrent part (sequential: >= 12 operations).",
        "nontrivial_floor": 0.1,
        "assumptions": ["sequentially consistent interleavings", "at most one iterator alive at any time and no ordinary operation by the thread that holds it (documented rules)"],
    },
    "C11": {
        "jobs": c11_jobs,
        "level_text": "Sampled exploration of iterator sessions (begin/find, ++, erase(iterator), repeated dereference, moves, early reset) "
                      "single-threaded against the model and concurrently with lock-free readers and writers.",
        "level_note": "Trusted: runtime, checker; every yield is a point-in-time lookup (the iterator holds the bucket lock), so an update of "
                      "a locked bucket taking effect shows up as a non-linearizable history.",
        "technique": "property-based testing: generated iterator sessions + concurrent readers/writers + schedules vs model traversal, lock probe and linearizability checker; plus coverage-guided fuzzing (libFuzzer, ASan+UBSan) of decoded sequential operation sequences vs a reference model",
        "rule": "case = as C10 with an iterator session in every case (one thread: begin() or find(k), then up to 14 steps from ++ / "
                "erase(it) / double dereference / move construction+assignment / reset), one pure try_get_value reader and 0-2 writers on "
                "non-stable keys. Oracle: yields are point-in-time lookups inside the linearizability check, erase(iterator) removes "
                "exactly the yielded element, no key twice in one session, a complete traversal from begin() yields every stable element, "
                "moved-from iterators are end(), after the session every bucket is unlocked (emplace+erase / try_get_value probe per key; "
                "a lost lock is a hang or deadlock verdict), final iteration equals the model. Non-trivial: the session erased at least "
                "one element through the iterator. Distinct: program + history.",
        "nontrivial_floor": 0.1,
        "assumptions": ["sequentially consistent interleavings", "documented iterator rules are generator preconditions"],
    },
    "C12": {
        "jobs": c12_jobs,
        "level_text": "Sampled exploration of owner/thief histories decided by an exact linearizability check against the deque specification "
                      "(try_steal may additionally fail when it overlapped a successful removal), plus exactly-once hand-out and a final drain.",
        "level_note": "Trusted: runtime, checker; the index-offset prefix is checked directly (push followed by pop/steal returns the item) "
                      "rather than through the 64-operation history.",
        "technique": "property-based testing: generated owner/thief programs + index offsets + schedules vs linearizability checker (deque spec) and conservation; plus coverage-guided fuzzing (libFuzzer, ASan+UBSan) of decoded sequential operation sequences vs a reference model",
        "rule": "case = container (growing or fixed, capacity 2/4/8) x index offset 0..5*capacity reached by push+pop or push+steal traffic "
                "(sequential cases: up to 10^4) x fill level 0..capacity+1 x owner program (up to 12 try_push/try_pop) x 1-3 thieves (up to 8 "
                "try_steal each) x generated schedule. Oracle: linearizability against the deque specification, no item handed out twice, "
                "nothing invented, nothing lost (final drain). Non-trivial: the array grew in the concurrent part at an offset that is not "
                "a multiple of the capacity, or a steal overlapped a pop. Distinct: program + history.",
        "nontrivial_floor": 0.1,
        "assumptions": ["sequentially consistent interleavings in this check (the weak tier is C03)", "exactly one owner thread"],
    },
    "C13": {
        "jobs": c13_jobs,
        "level_text": "Sampled exploration of 1-2 writers and 1-3 readers on left_right<Pair>; overlap flags maintained by the functors decide "
                      "mutual exclusion per instance, the logs decide exactly-once application in the same order, a register specification "
                      "decides linearizability of reads.",
        "level_note": "Trusted: runtime (std::mutex and this_thread::yield are interposed), checker; SC interleavings here, the race-detector "
                      "version of the exclusion property is part of C03.",
        "technique": "property-based testing: generated reader/writer programs + schedules vs overlap flags, per-instance logs and linearizability checker (register spec)",
        "rule": "case = 1-2 writers x up to 6 update(f_i) (f_i sets a=b=i with a scheduling point in between and appends i to the instance's "
                "log) and 1-3 readers x up to 6 read(functor reading a, scheduling point, b) x generated schedule. Oracle: no functor pair "
                "(writer/reader, writer/writer) inside the same instance, a==b in every read, every f_i applied exactly once per instance, "
                "equal logs, reads/updates linearizable w.r.t. a register. Non-trivial: a read functor ran while some update was in progress. "
                "Distinct: program + history.",
        "nontrivial_floor": 0.2,
        "assumptions": ["sequentially consistent interleavings"],
    },
    "C14": {
        "jobs": c14_jobs,
        "level_text": "Sampled exploration of 1-2 writers (store and update) and 1-3 readers over element types of sizes 9-40 bytes with "
                      "alignments 1/2/4/8 and 1-8 slots; every loaded value is compared byte-wise with the set of values ever stored and the "
                      "history is checked against an atomic register with read-modify-write.",
        "level_note": "Trusted: runtime, checker; element types are padding-free so byte comparison is meaningful.",
        "technique": "property-based testing: generated store/update/load programs + schedules vs byte-exact value oracle and linearizability checker (RMW register spec); plus coverage-guided fuzzing (libFuzzer, ASan+UBSan) of decoded sequential operation sequences vs a reference model",
        "rule": "case = element type (byte arrays of 9/12/16/20/24/33 bytes, uint16x5, uint32x3, uint64x2/3/4, packed struct) x slots "
                "{1,2,3,4,8} x 1-2 writers x up to 6 store/update and 1-3 readers x up to 6 load x generated schedule. Oracle: every byte of a "
                "loaded value is the byte of one stored value (all sizeof(T) bytes of the same value), history linearizable w.r.t. a register "
                "with read-modify-write (no lost update, no going back). Non-trivial: a load overlapped a store/update. Distinct: program + "
                "history.",
        "nontrivial_floor": 0.2,
        "assumptions": ["sequentially consistent interleavings", "the seqlock is constructed with an explicit initial value"],
    },
    "C15": {
        "jobs": c15_jobs,
        "level_text": "Sampled exploration in four parts: (1) marked_ptr round trips for every mark width 0..32 x six upper/lower bit splits "
                      "with constructed pointer patterns and full-range marks, (2) concurrent_ptr against a one-cell model, (3) single-"
                      "threaded guard_ptr operation sequences for every reclaimer against a shared-ownership value model, (4) concurrent "
                      "acquire against a thread that keeps replacing the source (snapshot interval rule).",
        "level_note": "Trusted: runtime; the bounded-exhaustive enumeration planned in DESIGN.md was replaced by dense random sampling of "
                      "length-10 sequences (no exhaustiveness claim); pointers are arbitrary bit patterns inside the pointer mask.",
        "technique": "property-based testing: generated pointer/mark bit patterns and guard operation sequences vs bit-arithmetic and smart-pointer value models",
        "rule": "cases: (1) per case 12 round trips for each of the 33x6 marked_ptr instantiations (pointer = random or special bit "
                "pattern masked to the pointer bits, mark = random/special 64-bit value; get/mark/==/bool/reset checked); (2) 20-60 "
                "load/store/compare_exchange operations on a concurrent_ptr against a one-cell model; (3) one thread, 10 guard operations "
                "(acquire, acquire_if_equal with equal/unequal/null expected, copy/move assignment incl. self-assignment, copy "
                "construction + swap, swap, reset twice, guard of a fresh node, publish/unlink+reclaim) with the exact value model checked "
                "after every step and liveness of every object a guard refers to; (4) the concurrent rclient programs with the rule that the "
                "object returned by acquire was published to that cell before the call returned and not replaced before it was invoked. "
                "Non-trivial: (3) a sequence containing copy/move/swap on guards, (1),(2) every case, (4) as C01. Distinct: fingerprint of the "
                "drawn values / program.",
        "nontrivial_floor": 0.1,
        "assumptions": ["marked pointers are aligned for their lower mark bits and fit the pointer bits (documented precondition, by construction)"],
    },
    "C18": {
        "jobs": c18_jobs,
        "level_text": "Sampled exploration of guard operation sequences (24 operations over K+2 guard variables, 1-3 threads one after the "
                      "other so that control blocks are re-used) for hazard pointers and hazard eras, static K in {1,2,3,5} and dynamic K in "
                      "{1,2}; a conservative slot model decides when an allocation exception is forbidden, allowed, and what must hold after it.",
        "level_note": "Trusted: runtime; the slot model only forbids an exception while (protecting guards + empty variables that may still own "
                      "a slot) < K, and only allows the scheme's own exception type; hazard-pointer copy assignment from an empty guard and "
                      "hazard-era acquire of a null pointer keep a slot, which the statement does not exclude.",
        "technique": "property-based testing: generated guard-operation sequences vs conservative slot model, exception contract and protection (retire+scan by another thread)",
        "rule": "case = scheme (HP/HE) x strategy (static K=1,2,3,5; dynamic K=1,2) x 1-3 consecutive threads x 24 operations from acquire, "
                "acquire_if_equal (equal/unequal/null expected), copy/move assignment incl. self-assignment, swap, reset (twice), "
                "destroy+default construct, copy/move construction, construction from a marked_ptr of a linked object, use, 2000 "
                "acquire/release rounds, and retire+scan of a cell's object by another thread. Every thread first acquires K protecting "
                "guards. Oracle: no exception while the slot upper bound is below K (static) or ever (dynamic); only the scheme's exception "
                "type; after an exception all other guards are unchanged and still protect; after releasing one guard the acquire "
                "succeeds; guard contents equal the model after every step; no guarded object is destroyed. Non-trivial: K protecting "
                "guards were held at once. Distinct: operation sequence.",
        "nontrivial_floor": 0.5,
        "assumptions": ["single guard-using thread at a time plus a helper thread for retire+scan"],
    },
    "C16": {
        "jobs": c16_jobs,
        "level_text": "Safety approximation of lock-freedom: from sampled reachable states (a generated schedule prefix with the other threads "
                      "suspended wherever they are, also in the middle of operations) one thread runs alone until its current or next "
                      "lock-free operation returns; it must do so within a bounded number of its own steps.",
        "level_note": "Trusted: runtime; the bound (30000 own scheduling points) is far above any legitimate solo completion (bounded retry "
                      "loops included) - an operation that waits for a suspended thread never finishes and hits it. Blocking operations "
                      "(vyukov strong operations, vyukov_hash_map updates/find/iterators, seqlock writes and single-slot loads, "
                      "left_right::update) are never the measured operation but other threads may be suspended inside them. Nikolaev queues "
                      "run with fewer threads than slots per node, their documented condition.",
        "technique": "property-based testing: generated programs + schedule prefixes + generated switch point, then solo execution with a step-count oracle",
        "rule": "case = any Engine-A harness (reclaimer client, all queues, set/map, vyukov map readers, deque, left_right readers, seqlock "
                "multi-slot loads) x program x schedule prefix x switch step (counted from the start of the concurrent part) x victim. "
                "Oracle: the victim finishes the lock-free operation it is in (or its next one) within 30000 of its own steps while everybody "
                "else is frozen. Non-trivial: at the switch at least one other thread was suspended inside an operation on the same object. "
                "Distinct: program + switch point.",
        "nontrivial_floor": 0.05,
        "assumptions": ["sequentially consistent interleavings; no spurious CAS failures", "finite sample of reachable states; lock-freedom itself (a liveness property) is not established"],
    },
    "C03": {
        "jobs": c03_jobs,
        "level_text": "Sampled exploration of weak executions: every Engine-A harness (reclaimer client, all queues, set/map, vyukov map, "
                      "deque, left_right, seqlock) runs under a view-based operational model of release/acquire, fences and seq_cst in which a "
                      "load may return any store that happens-before does not rule out and that was overwritten at most W scheduling steps "
                      "ago; a FastTrack-style vector-clock race detector checks every instrumented plain access (and every free as a write) "
                      "against the model's happens-before, and the owning property's oracles are re-evaluated with happens-before precedence.",
        "level_note": "Trusted: the memory model in engine/vrt.cpp (every deviation from C++11 is towards more synchronisation: append-only "
                      "modification order, seq_cst accesses as strong as seq_cst fences, RMWs and failed CAS read the newest store), so an "
                      "execution it produces is RC11-consistent; incompleteness: no load buffering, no store inserted into the middle of a "
                      "modification order, plain data always reads the newest value (covered by the race detector only). Built with NDEBUG "
                      "(asserts perform seq_cst loads). Both the production orders and the TSAN_MEMORY_ORDER variant are run.",
        "technique": "property-based testing: generated programs + schedules + generated reads-from choices under a view-based weak memory model, vector-clock race detection, linearizability with happens-before precedence",
        "rule": "case = (harness, configuration, program, schedule, reads-from decisions, spurious weak-CAS failures) with staleness window W=16 "
                "(thorough: 16, 64, 256), stale-read probability 5-50% per case, production and TSan memory-order variants. Oracles: data race "
                "on heap data (incl. free-as-write), use-after-free, guard registry, lifecycle, canary, linearizability with hb precedence of the operations that change the container (successful "
                "pushes/pops, insertions/removals) plus the final drain/iteration; verdicts that change nothing (empty/full, absent, already present, "
                "looked-up values) are not forced into one total order in weak mode - a value must have been inserted for that key, and 'absent although "
                "an insertion that nothing can undo happens-before' is checked directly. "
                "Non-trivial: as the owning property, and the run counts cases in which at least one load returned a non-newest store "
                "(cases_with_stale_read). Distinct: program + history.",
        "nontrivial_floor": 0.05,
        "assumptions": ["executions are a subset of the RC11-consistent ones", "race detection on heap (arena) data only: stack and thread-local storage are excluded"],
    },
}
