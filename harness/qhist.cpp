// qhist — queue histories (C04 FIFO linearizability, C05 bounded FIFOs, C06 k-FIFOs, C07 element ownership;
// weak tier of C03; solo tier of C16).
#include "prelude_begin.hpp"

#include <xenium/kirsch_bounded_kfifo_queue.hpp>
#include <xenium/kirsch_kfifo_queue.hpp>
#include <xenium/michael_scott_queue.hpp>
#include <xenium/nikolaev_bounded_queue.hpp>
#include <xenium/nikolaev_queue.hpp>
#include <xenium/ramalhete_queue.hpp>
#include <xenium/reclamation/generic_epoch_based.hpp>
#include <xenium/reclamation/hazard_eras.hpp>
#include <xenium/reclamation/hazard_pointer.hpp>
#include <xenium/reclamation/lock_free_ref_count.hpp>
#include <xenium/reclamation/quiescent_state_based.hpp>
#include <xenium/reclamation/stamp_it.hpp>
#include <xenium/vyukov_bounded_queue.hpp>

#include "prelude_end.hpp"

#include "hcommon.hpp"
#include "lin.hpp"

using namespace xenium;
namespace rec = xenium::reclamation;

namespace {

constexpr int MAXID = 256;
constexpr int MAXT = 4;
constexpr int MAXOPS = 6;

// ---- O-LIFE: lifecycle registry for element payloads -------------------------------------------------
struct Life {
  int live[MAXID];      // instances currently holding this content
  int destroyed[MAXID]; // times this content was destroyed
  bool harness_deleting = false;
  bool raw_mode = false; // raw pointers: the queue must never destroy an element
  int n_ids = 1;
} L;

constexpr uint32_t ALIVE = 0xA11CE5u, DEAD = 0xDEADu;

struct Tracked {
  uint32_t id;
  uint32_t state;
  Tracked() noexcept : id(0), state(ALIVE) {}
  explicit Tracked(uint32_t i) noexcept : id(i), state(ALIVE) {
    if (i >= MAXID) vrt::fail("harness_error", "id out of range");
    if (i) {
      if (++L.live[i] != 1) vrt::fail("duplicated_element", "element %u exists %d times", i, L.live[i]);
    }
  }
  Tracked(const Tracked&) = delete;
  Tracked& operator=(const Tracked&) = delete;
  Tracked(Tracked&& o) noexcept : id(o.id), state(ALIVE) {
    o.check("moved from");
    o.id = 0;
  }
  Tracked& operator=(Tracked&& o) noexcept {
    check("move-assigned to");
    o.check("moved from");
    if (this != &o) {
      drop("move assignment");
      id = o.id;
      o.id = 0;
    }
    return *this;
  }
  ~Tracked() {
    check("destroyed");
    if (id && L.raw_mode && !L.harness_deleting) vrt::fail("destroyed_unowned", "the queue destroyed element %u that it does not own (raw pointer payload)", id);
    drop("destructor");
    state = DEAD;
  }
  void check(const char* what) const {
    if (state != ALIVE)
      vrt::fail(state == DEAD ? "element_used_after_destruction" : "element_not_constructed", "an element object (%p, id field %u) is %s but is %s", (const void*)this,
                id, what, state == DEAD ? "already destroyed" : "not a constructed object");
  }
  void drop(const char* how) {
    if (!id) return;
    if (id >= MAXID) vrt::fail("corrupted_element", "element with invalid id %u %s", id, how);
    L.live[id]--;
    if (++L.destroyed[id] > 1) vrt::fail("double_destroy", "element %u destroyed twice (%s)", id, how);
    id = 0;
  }
};

template <class E>
struct ET;
template <>
struct ET<Tracked> {
  static constexpr const char* name = "Tracked";
  static Tracked make(uint32_t id) { return Tracked(id); }
  static Tracked empty() { return Tracked(); }
  static uint32_t id(const Tracked& t) { return t.id; }
  static void consume(Tracked& t) { t = Tracked(); }
  static void setup() {}
};
template <>
struct ET<std::unique_ptr<Tracked>> {
  static constexpr const char* name = "unique_ptr<Tracked>";
  static std::unique_ptr<Tracked> make(uint32_t id) {
    vrt::TagScope ts(vrt::TAG_CLIENT);
    return std::make_unique<Tracked>(id);
  }
  static std::unique_ptr<Tracked> empty() { return nullptr; }
  static uint32_t id(const std::unique_ptr<Tracked>& t) { return t ? t->id : 0; }
  static void consume(std::unique_ptr<Tracked>& t) { t.reset(); }
  static void setup() {}
};
template <>
struct ET<Tracked*> {
  static constexpr const char* name = "Tracked*";
  static Tracked* make(uint32_t id) {
    vrt::TagScope ts(vrt::TAG_CLIENT);
    return new Tracked(id);
  }
  static Tracked* empty() { return nullptr; }
  static uint32_t id(Tracked* const& t) { return t ? t->id : 0; }
  static void consume(Tracked*& t) {
    if (t) {
      L.harness_deleting = true;
      delete t;
      L.harness_deleting = false;
    }
    t = nullptr;
  }
  static void setup() { L.raw_mode = true; }
};
template <>
struct ET<uint32_t> {
  static constexpr const char* name = "uint32_t";
  static uint32_t make(uint32_t id) { return id; }
  static uint32_t empty() { return 0; }
  static uint32_t id(const uint32_t& t) { return t; }
  static void consume(uint32_t& t) { t = 0; }
  static void setup() {}
};

// ---- specifications ------------------------------------------------------------------------------------
enum SpecKind { S_FIFO, S_NIKB, S_VYU, S_KK, S_KB };
enum { K_PUSH = 1, K_POP = 2 };

struct QOp : lin::OpBase {
  uint8_t kind = 0, variant = 0;
  bool ok = false;
  bool weak = false;
  bool concurrent = false; // executed in the concurrent part
  uint32_t id = 0;
  int overlap = 0;
  int overlap_pushes = 0; // overlapping push operations (they may hold a slot tentatively)
};

struct QSpec {
  using Op = QOp;
  struct State {
    uint16_t n = 0;
    uint8_t v[96];
  };
  SpecKind kind;
  uint32_t cap = 0, k = 1, segs = 1;
  bool failures_free = false; // weak executions (C03): empty/full verdicts are not among the guaranteed safety properties
  bool unordered = false; // diagnosis only: a pop may return any stored element (conservation + full/empty rules kept)

  uint64_t hash(const State& s) const {
    uint64_t h = s.n;
    for (int i = 0; i < s.n; ++i) h = vh::hmix(h, s.v[i]);
    return h;
  }
  bool equal(const State& a, const State& b) const { return a.n == b.n && memcmp(a.v, b.v, a.n) == 0; }
  static void remove_at(State& s, int i) {
    for (int j = i + 1; j < s.n; ++j) s.v[j - 1] = s.v[j];
    s.n--;
  }
  int alternatives(const Op&) const { return 1; }
  bool apply(State& s, const Op& o, int = 0) const {
    if (o.kind == K_PUSH) {
      if (o.ok) {
        if (s.n >= 96) return false;
        if ((kind == S_NIKB || kind == S_VYU) && s.n >= cap) return false;
        if (kind == S_KB && s.n >= (uint64_t)k * segs) return false;
        s.v[s.n++] = (uint8_t)o.id;
        return true;
      }
      // failed push
      if (failures_free) return true;
      switch (kind) {
      case S_VYU: return o.weak || s.n >= cap;
      case S_NIKB: return (uint32_t)(s.n + o.overlap) >= cap; // every operation in progress may occupy a slot
      case S_KB: return (uint64_t)(s.n + o.overlap_pushes) >= (uint64_t)(segs - 1) * k + 1; // a push in progress holds its slot before it commits
      default: return false;
      }
    }
    // pop
    if (o.ok) {
      int window = unordered ? 96 : (kind == S_KK || kind == S_KB) ? (int)k : 1;
      for (int i = 0; i < s.n && i < window; ++i)
        if (s.v[i] == o.id) {
          remove_at(s, i);
          return true;
        }
      return false;
    }
    if (failures_free) return true;
    switch (kind) {
    case S_VYU: return o.weak || s.n == 0;
    case S_KK:
    case S_KB: return o.overlap > 0 ? s.n < k : s.n == 0;
    default: return s.n == 0;
    }
  }
};

// ---- queue adapters --------------------------------------------------------------------------------------
struct Params {
  uint32_t cap = 0, k = 1, segs = 1;
};

template <class Q_, class E_, SpecKind SK>
struct Adapter {
  using Q = Q_;
  using E = E_;
  static constexpr SpecKind spec = SK;
  static constexpr int push_variants = SK == S_VYU ? 3 : 1;
  static constexpr int pop_variants = SK == S_VYU ? 6 : 2;

  static void gen_params(Params& p) {
    if constexpr (SK == S_NIKB) {
      static const uint32_t caps[6] = {1, 2, 3, 4, 5, 8};
      p.cap = caps[vrt::choose(6)];
    } else if constexpr (SK == S_VYU) {
      static const uint32_t caps[3] = {2, 4, 8};
      p.cap = caps[vrt::choose(3)];
    } else if constexpr (SK == S_KK) {
      p.k = 1 + vrt::choose(4);
    } else if constexpr (SK == S_KB) {
      p.k = 1 + vrt::choose(3);
      p.segs = 1 + vrt::choose(4);
    }
  }
  static Q* make(Params& p) {
    if constexpr (SK == S_NIKB) {
      Q* q = new Q(p.cap);
      uint32_t c = 1;
      while (c < p.cap) c <<= 1; // documented: the capacity is rounded up to a power of two
      p.cap = c;
      return q;
    } else if constexpr (SK == S_VYU)
      return new Q(p.cap);
    else if constexpr (SK == S_KK)
      return new Q(p.k);
    else if constexpr (SK == S_KB)
      return new Q(p.k, p.segs);
    else
      return new Q();
  }
  // returns success; on failure of a forwarding-reference API the element must be untouched
  static bool push(Q& q, E& e, int variant, bool& weak) {
    weak = false;
    if constexpr (SK == S_FIFO || SK == S_KK) {
      q.push(std::move(e));
      return true;
    } else if constexpr (SK == S_NIKB || SK == S_KB) {
      return q.try_push(std::move(e));
    } else {
      uint32_t id = ET<E>::id(e);
      bool ok;
      if (variant == 0)
        ok = q.try_push_strong(std::move(e));
      else if (variant == 1) {
        ok = q.try_push_weak(std::move(e));
        weak = true;
      } else
        ok = q.try_push(std::move(e)); // default_to_weak is false
      if (!ok && ET<E>::id(e) != id)
        vrt::fail("rejected_value_consumed", "try_push failed but the caller's element %u was moved from", id);
      return ok;
    }
  }
  static bool pop(Q& q, E& out, int variant, bool& weak) {
    weak = false;
    if constexpr (SK == S_VYU) {
      switch (variant) {
      case 0: return q.try_pop_strong(out);
      case 1: weak = true; return q.try_pop_weak(out);
      case 2: {
        auto r = q.pop_strong();
        if (r) out = std::move(*r);
        return (bool)r;
      }
      case 3: {
        weak = true;
        auto r = q.pop_weak();
        if (r) out = std::move(*r);
        return (bool)r;
      }
      case 4: return q.try_pop(out);
      default: {
        auto r = q.pop();
        if (r) out = std::move(*r);
        return (bool)r;
      }
      }
    } else {
      if (variant == 0) return q.try_pop(out);
      auto r = q.pop();
      if (r) out = std::move(*r);
      return (bool)r;
    }
  }
};

template <class Q>
struct is_nikolaev : std::false_type {};
template <class T, class... P>
struct is_nikolaev<nikolaev_queue<T, P...>> : std::true_type {};

// reclaimer of a queue type (void: the queue does not use one) and an optional region_guard of it
template <class Q>
struct RecOf {
  using type = void;
};
template <class T, class R, class... P>
struct RecOf<michael_scott_queue<T, policy::reclaimer<R>, P...>> {
  using type = R;
};
template <class T, class R, class... P>
struct RecOf<ramalhete_queue<T, policy::reclaimer<R>, P...>> {
  using type = R;
};
template <class T, class R, class... P>
struct RecOf<nikolaev_queue<T, policy::reclaimer<R>, P...>> {
  using type = R;
};
template <class T, class R, class... P>
struct RecOf<kirsch_kfifo_queue<T, policy::reclaimer<R>, P...>> {
  using type = R;
};
template <class R>
struct RegionScope {
  alignas(typename R::region_guard) unsigned char buf[sizeof(typename R::region_guard)];
  bool on;
  explicit RegionScope(bool enable) : on(enable) {
    if (on) new (buf) typename R::region_guard();
  }
  ~RegionScope() {
    using RG = typename R::region_guard;
    if (on) reinterpret_cast<RG*>(buf)->~RG();
  }
};
template <>
struct RegionScope<void> {
  explicit RegionScope(bool) {}
};

template <class A>
struct QHarness {
  using Q = typename A::Q;
  using E = typename A::E;
  struct POp {
    uint8_t kind, variant;
  };
  Q* q = nullptr;
  Params par;
  POp prefix[24];
  int nprefix = 0;
  POp progs[MAXT][MAXOPS];
  int nthreads = 2;
  int region_mode = 0;
  vh::hvec<QOp> hist[MAXT + 1]; // per thread (index MAXT: main)
  bool drain = true;
  bool large = false;
  int pushes_ok = 0;

  static bool lockfree_op(const POp& o) {
    if (A::spec != S_VYU) return true;
    if (o.kind == K_PUSH) return o.variant == 1;
    return o.variant == 1 || o.variant == 3;
  }

  void exec(const POp& o, vh::hvec<QOp>& h, bool concurrent) {
    QOp r;
    r.tid = vrt::self();
    r.kind = o.kind;
    r.variant = o.variant;
    r.concurrent = concurrent;
    if (o.kind == K_PUSH) {
      if (L.n_ids >= MAXID - 1) return;
      uint32_t id = (uint32_t)L.n_ids++;
      E e = ET<E>::make(id);
      r.id = id;
      vrt::op_begin(lockfree_op(o));
      vrt::stamp(&r.inv);
      r.ok = A::push(*q, e, o.variant, r.weak);
      vrt::stamp(&r.resp);
      vrt::op_end();
      if (r.ok) {
        if (ET<E>::id(e) != 0 && !std::is_same_v<E, uint32_t> && !std::is_same_v<E, Tracked*>)
          vrt::fail("accepted_value_not_taken", "push of element %u succeeded but the caller still holds its content", id);
      } else {
        ET<E>::consume(e); // rejected: the caller's object (or the by-value parameter) ends its life here
      }
    } else {
      E out = ET<E>::empty();
      vrt::op_begin(lockfree_op(o));
      vrt::stamp(&r.inv);
      r.ok = A::pop(*q, out, o.variant, r.weak);
      vrt::stamp(&r.resp);
      vrt::op_end();
      if (r.ok) {
        uint32_t id;
        if constexpr (std::is_same_v<E, Tracked*>) {
          if (out == nullptr) vrt::fail("invented_element", "pop returned a null pointer");
          vrt::check_access(out, sizeof(Tracked), false);
        }
        if constexpr (std::is_same_v<E, std::unique_ptr<Tracked>>) {
          if (!out) vrt::fail("invented_element", "pop returned an empty unique_ptr");
          vrt::check_access(out.get(), sizeof(Tracked), false);
        }
        id = ET<E>::id(out);
        if (id == 0 || id >= (uint32_t)L.n_ids) vrt::fail("invented_element", "pop returned a value (%u) that was never pushed", id);
        r.id = id;
        if constexpr (!std::is_same_v<E, uint32_t>) {
          if (L.live[id] != 1) vrt::fail("duplicated_element", "popped element %u has %d live instances", id, L.live[id]);
        }
        ET<E>::consume(out); // the consumer owns it now and destroys it
      } else if (ET<E>::id(out) != 0) {
        vrt::fail("invented_element", "pop reported empty but wrote a value");
      }
    }
    h.push_back(r);
  }

  void run() {
    ET<E>::setup();
    const bool c07 = vh::prop_is("C07");
    A::gen_params(par);
    if (large) {
      static const uint32_t ks[12] = {1, 2, 3, 255, 256, 257, 1000, 4096, 21846, 40000, 65535, 70000};
      static const uint32_t ss[8] = {1, 2, 3, 4, 5, 16, 255, 1024};
      par.k = ks[vrt::choose(12)];
      par.segs = A::spec == S_KB ? ss[vrt::choose(8)] : 1;
      // F9 (known finding, see known_findings.json): the packed 16-bit index of kirsch_bounded_kfifo_queue cannot
      // address k*segments > 2^16 slots; such configurations are excluded by construction unless asked for
      if (A::spec == S_KB && (uint64_t)par.k * par.segs > 65536 && !vrt::param("include_f9", 0)) {
        vrt::label("excluded:F9_product_above_2^16");
        while ((uint64_t)par.k * par.segs > 65536) par.segs = par.segs > 1 ? par.segs / 2 : (par.k /= 2, 1u);
      }
      if ((uint64_t)par.k * par.segs > 300000) par.segs = (uint32_t)(300000 / par.k);
      if (par.segs == 0) par.segs = 1;
      if ((uint64_t)par.k * par.segs > 65536) vrt::label("product_above_2^16");
      if (par.k == 1) vrt::label("k=1");
      if (par.segs == 1) vrt::label("one_segment");
    }
    // ---- program (fixed shape; kind 0 = no operation)
    nthreads = large ? 0 : (A::spec == S_KB || A::spec == S_KK) ? 1 + (int)vrt::choose(4) : 2 + (int)vrt::choose(3);
    static const uint32_t wk[3] = {2, 4, 3};
    int np = (int)vrt::choose(13);
    if (large) np = 4 + (int)vrt::choose(par.k > 10000 ? 9 : 20);
    else if (A::spec == S_NIKB || A::spec == S_VYU || A::spec == S_KB) np = (int)vrt::choose(2 * 8 + 3);
    nprefix = np;
    if constexpr (A::spec == S_NIKB) {
      // known finding F23 attributes unjustified verdicts to "more threads than slots"; so that the threshold logic
      // stays well covered where that excuse does not apply, every second such case gets a capacity that is large
      // enough for its threads (no extra draw: the parity of the prefix length decides)
      if ((uint32_t)nthreads > par.cap && np % 2 == 0) {
        par.cap = 4;
        vrt::label("capacity_raised_to_thread_count");
      }
    }
    for (int i = 0; i < np; ++i) {
      prefix[i].kind = (uint8_t)(vrt::choose(4) == 0 ? K_POP : K_PUSH);
      prefix[i].variant = 0;
    }
    for (int t = 0; t < MAXT; ++t)
      for (int i = 0; i < MAXOPS; ++i) {
        POp o;
        o.kind = (uint8_t)vrt::weighted(wk, 3);
        o.variant = (uint8_t)vrt::choose(o.kind == K_PUSH ? A::push_variants : A::pop_variants);
        progs[t][i] = o;
      }
    drain = c07 ? vrt::choose(4) == 0 : vrt::choose(8) != 0;
    // last draw (replay files written before it existed read 0 = none): threads that run their whole program inside
    // one region_guard of the queue's reclaimer - a documented way to use the containers, under which guard_ptrs do
    // not enter/leave the critical region (and do not execute its fences) themselves
    region_mode = large ? 0 : (int)vrt::choose(4);

    if (vrt::solo_mode()) {
      // nikolaev queues promise lock-freedom only while fewer threads than slots (per node) operate on the queue
      if constexpr (A::spec == S_NIKB) {
        par.cap = 8;
        if (nthreads > 4) nthreads = 4;
      }
      if constexpr (A::spec == S_FIFO && is_nikolaev<Q>::value) {
        if ((unsigned)nthreads >= Q::entries_per_node) nthreads = (int)Q::entries_per_node - 1;
        if (nthreads < 2) {
          vrt::label("excluded:nikolaev_node_smaller_than_thread_count");
          return;
        }
      }
    }
    if (vrt::want_desc()) {
      vrt::desc("element=%s cap=%u k=%u segments=%u threads=%d drain=%d%s\n  prefix:", ET<E>::name, par.cap, par.k, par.segs, nthreads, (int)drain,
                region_mode == 2 ? " region_guard=all threads" : region_mode == 3 ? " region_guard=T1" : "");
      for (int i = 0; i < nprefix; ++i) vrt::desc(" %s", prefix[i].kind == K_PUSH ? "push" : "pop");
      vrt::desc("\n");
      for (int t = 0; t < nthreads; ++t) {
        vrt::desc("  T%d:", t + 1);
        for (int i = 0; i < MAXOPS; ++i)
          if (progs[t][i].kind) vrt::desc(" %s/%d", progs[t][i].kind == K_PUSH ? "push" : "pop", progs[t][i].variant);
        vrt::desc("\n");
      }
    }
    uint64_t ph = vh::hmix(par.cap, par.k * 16 + par.segs + 4096 * (uint64_t)region_mode);
    if (region_mode >= 2 && !std::is_void<typename RecOf<Q>::type>::value) vrt::label("threads_inside_region_guard");
    for (int i = 0; i < nprefix; ++i) ph = vh::hmix(ph, prefix[i].kind);
    for (int t = 0; t < nthreads; ++t)
      for (int i = 0; i < MAXOPS; ++i) ph = vh::hmix(ph, progs[t][i].kind * 8 + progs[t][i].variant + 64 * t);
    vrt::fp(ph);

    q = A::make(par);
    uint64_t allocs0 = vrt::alloc_count(vrt::TAG_DEFAULT);
    for (int i = 0; i < nprefix; ++i) exec(prefix[i], hist[MAXT], false);
    uint64_t allocs1 = vrt::alloc_count(vrt::TAG_DEFAULT);

    vrt::concurrent_phase(true);
    {
      vh::Threads th;
      for (int t = 0; t < nthreads; ++t)
        th.start([this, t] {
          RegionScope<typename RecOf<Q>::type> rg(region_mode == 2 || (region_mode == 3 && t == 0));
          for (int i = 0; i < MAXOPS; ++i)
            if (progs[t][i].kind) {
              vrt::point();
              exec(progs[t][i], hist[t], true);
            }
        });
      th.join_all();
    }
    vrt::concurrent_phase(false);
    uint64_t allocs2 = vrt::alloc_count(vrt::TAG_DEFAULT);

    int drained = 0;
    if (drain) {
      POp d{K_POP, 0};
      for (int i = 0; i < 100; ++i) {
        if (A::spec == S_VYU) d.variant = (uint8_t)(i % 2 ? 2 : 0); // strong pops only: they cannot fail spuriously
        size_t before = hist[MAXT].size();
        exec(d, hist[MAXT], false);
        if (hist[MAXT].size() == before || !hist[MAXT].back().ok) break;
        drained++;
      }
    }

    // ---- merge history, O-LIN
    vh::hvec<QOp> all;
    for (int t = 0; t <= MAXT; ++t)
      for (auto& o : hist[t]) all.push_back(o);
    QSpec spec;
    spec.kind = A::spec;
    spec.cap = par.cap;
    spec.k = par.k;
    spec.segs = par.segs;
    spec.failures_free = vrt::weak_mode();
    bool overlap_seen = false, verdict_under_overlap = false;
    int ok_pushes = 0;
    {
      lin::Checker<QSpec> pre(spec, all);
      for (size_t i = 0; i < all.size(); ++i) {
        all[i].overlap = pre.overlaps(i);
        all[i].overlap_pushes = 0;
        for (size_t j = 0; j < all.size(); ++j)
          if (j != i && all[j].kind == K_PUSH && !(pre.pred[i] & (1ull << j)) && !(pre.pred[j] & (1ull << i))) all[i].overlap_pushes++;
        if (all[i].overlap) overlap_seen = true;
        if (all[i].overlap && !all[i].ok) verdict_under_overlap = true;
        if (all[i].kind == K_PUSH && all[i].ok) ok_pushes++;
      }
    }
    lin::Checker<QSpec> chk(spec, all);
    QSpec::State init;
    bool lin_ok = c07 ? true : chk.run(init); // C07 decides ownership only; order and verdicts belong to C04-C06
    if (chk.capped) vrt::label("lin_search_capped");
    if (!lin_ok) {
      vrt::desc("history (not linearizable):\n");
      for (auto& o : all)
        vrt::desc("  t%d %s/%d -> %s id=%u  [%lu,%lu] overlap=%d\n", o.tid, o.kind == K_PUSH ? "push" : "pop", o.variant, o.ok ? "ok" : "fail", o.id,
                  (unsigned long)o.inv.step, (unsigned long)o.resp.step, o.overlap);
      size_t depth = chk.deepest_order.size();
      if (A::spec == S_KB || A::spec == S_KK) {
        // diagnosis: is only the order relaxation exceeded (elements conserved, full/empty verdicts right)?
        QSpec bag = spec;
        bag.unordered = true;
        lin::Checker<QSpec> chk2(bag, all);
        if (chk2.run(init) && !chk2.capped)
          vrt::fail(overlap_seen ? "concurrent_kfifo_order_exceeded" : "kfifo_order_exceeded",
                    "history of %zu operations conserves all elements and its full/empty verdicts are justified, but some pop returned a value that was "
                    "not among the k=%u oldest stored values in any linearization (longest k-FIFO-consistent prefix: %zu operations)",
                    all.size(), par.k, depth);
      }
      if (A::spec == S_NIKB && (uint32_t)nthreads > par.cap && !spec.failures_free) {
        // diagnosis (known finding F23): with more threads than slots the SCQ threshold can be exhausted by stale
        // dequeuers; are only the full/empty verdicts unjustified (order, loss and duplication still as specified)?
        QSpec lax = spec;
        lax.failures_free = true;
        lin::Checker<QSpec> chk3(lax, all);
        if (chk3.run(init) && !chk3.capped)
          vrt::fail("unjustified_verdict_threads_over_capacity",
                    "history of %zu operations by %d threads on a queue of capacity %u: successful operations are FIFO without loss or duplication, but "
                    "some try_push/try_pop failed although the queue was not full/empty at any instant of the call (longest consistent prefix: %zu operations)",
                    all.size(), nthreads, par.cap, depth);
      }
      const QOp* bad = nullptr;
      vrt::fail(overlap_seen && A::spec == S_KB ? "concurrent_not_linearizable" : "not_linearizable", "history of %zu operations has no linearization w.r.t. the %s specification (longest consistent prefix: %zu operations)%s",
                all.size(), A::spec == S_FIFO ? "FIFO" : A::spec == S_NIKB || A::spec == S_VYU ? "bounded FIFO" : "k-FIFO", depth, bad ? "" : "");
    }

    // pop order inversion (k-FIFO overtaking)
    bool overtook = false;
    {
      uint32_t last = 0;
      for (auto& o : hist[MAXT])
        if (o.kind == K_POP && o.ok && !o.concurrent) {
          if (o.id < last) overtook = true;
          last = o.id;
        }
    }

    // ---- destroy the queue, O-LIFE census
    int inside = 0;
    for (int id = 1; id < L.n_ids; ++id)
      if (L.live[id] > 0) inside++;
    delete q;
    q = nullptr;
    if constexpr (std::is_same_v<E, Tracked*>) {
      // raw pointers stay owned by the harness: everything still alive is deleted by us now
      for (auto& o : all)
        (void)o;
    } else if constexpr (!std::is_same_v<E, uint32_t>) {
      for (int id = 1; id < L.n_ids; ++id) {
        if (L.live[id] != 0)
          vrt::fail(A::spec == S_NIKB && (uint32_t)nthreads > par.cap ? "leaked_element_threads_over_capacity" : "leaked_element",
                    "element %d is still alive after the queue was destroyed (%d elements were inside)", id, inside);
        if (L.destroyed[id] != 1) vrt::fail("leaked_element", "element %d was destroyed %d times", id, L.destroyed[id]);
      }
    }
    if (inside > 0) vrt::label("queue_destroyed_non_empty");
    if (drained > 0) vrt::label("drained_some");

    // ---- evidence classification
    bool node_boundary = allocs2 > allocs1;
    if (overlap_seen) vrt::label("operations_overlapped");
    if (node_boundary) vrt::label("allocation_in_concurrent_part");
    if (verdict_under_overlap) vrt::label("failure_verdict_under_overlap");
    if (overtook) vrt::label("drain_order_differs_from_push_order");
    bool wrapped = (A::spec == S_NIKB || A::spec == S_VYU) && (uint32_t)ok_pushes > par.cap;
    if (wrapped) vrt::label("ring_wrapped");
    (void)allocs0;
    uint64_t hh = 0;
    for (auto& o : all) hh = vh::hmix(hh, (uint64_t)o.id * 4 + o.ok + 2 * (o.kind == K_POP));
    vrt::fp(hh);
    if (c07) {
      if (inside > 0 && (allocs2 > allocs0 || A::spec == S_NIKB || A::spec == S_VYU || A::spec == S_KB)) vrt::nontrivial();
    } else if (vh::prop_is("C05")) {
      if (verdict_under_overlap && wrapped) vrt::nontrivial();
    } else if (vh::prop_is("C06") && large) {
      if (par.k == 1 || par.segs == 1 || (uint64_t)par.k * par.segs > 65536 || par.k >= 255) vrt::nontrivial();
    } else if (vh::prop_is("C06")) {
      if (overlap_seen && (overtook || node_boundary || verdict_under_overlap)) vrt::nontrivial();
    } else {
      if (overlap_seen && (node_boundary || A::spec != S_FIFO)) vrt::nontrivial();
    }
  }
};

// single-threaded runs with extreme configurations (huge k, products k*segments around 2^16, k=1, one segment)
template <class A>
void run_q_large() {
  vrt::TagScope ts(vrt::TAG_HARNESS);
  auto* h = new QHarness<A>();
  h->large = true;
  vrt::set_alloc_tag(vrt::TAG_DEFAULT);
  h->run();
}

// bulk mode: tens of thousands of pushes/pops of one shared raw pointer, single-threaded, counting model.
// Reaches ring indices beyond 2^16 (the packed index of kirsch_bounded_kfifo_queue) and many segment hand-overs.
template <class Q, bool BOUNDED>
void run_bulk() {
  static int pointee = 42;
  static const uint32_t ks[6] = {1, 2, 3, 5, 16, 64};
  static const uint32_t ss[9] = {1, 2, 3, 255, 4096, 21846, 33000, 65536, 70000};
  uint32_t k = ks[vrt::choose(6)];
  uint32_t segs = BOUNDED ? ss[vrt::choose(9)] : 1;
  if (BOUNDED && (uint64_t)k * segs > 65536 && !vrt::param("include_f9", 1)) {
    vrt::label("excluded:F9_product_above_2^16");
    segs = 65536 / k;
  }
  uint64_t cap = (uint64_t)k * segs;
  Q* q;
  if constexpr (BOUNDED)
    q = new Q(k, segs);
  else
    q = new Q(k);
  uint64_t count = 0, budget = 140000 / (k < 4 ? 1 : k / 2), total_pushed = 0;
  int phases = 1 + (int)vrt::choose(6);
  vrt::desc("bulk k=%u segments=%u:", k, segs);
  for (int ph = 0; ph < phases && budget > 0; ++ph) {
    bool push = vrt::choose(3) != 0;
    static const uint64_t ns[7] = {1, 2, 17, 300, 5000, 66000, 140000};
    uint64_t n = ns[vrt::choose(7)];
    if (vrt::choose(4) == 0) n = cap + 1;
    if (n > budget) n = budget;
    budget -= n;
    vrt::desc(" %s x%lu", push ? "push" : "pop", (unsigned long)n);
    for (uint64_t i = 0; i < n; ++i) {
      vrt::op_begin(1);
      if (push) {
        bool ok = true;
        if constexpr (BOUNDED)
          ok = q->try_push(&pointee);
        else
          q->push(&pointee);
        if (ok) {
          count++;
          total_pushed++;
          if (BOUNDED && count > cap) vrt::fail("capacity_exceeded", "bulk: %lu elements accepted by a queue of k*segments=%lu", (unsigned long)count, (unsigned long)cap);
        } else if (count < (uint64_t)(segs - 1) * k + 1)
          vrt::fail("spurious_full", "bulk: try_push failed with %lu stored elements, k=%u segments=%u (needs at least %lu)", (unsigned long)count, k, segs,
                    (unsigned long)((uint64_t)(segs - 1) * k + 1));
      } else {
        int* out = nullptr;
        bool ok = (i & 1) ? q->try_pop(out) : [&] {
          auto r = q->pop();
          if (r) out = *r;
          return (bool)r;
        }();
        if (ok) {
          if (out != &pointee) vrt::fail("invented_element", "bulk: pop returned a pointer that was never pushed");
          if (count == 0) vrt::fail("invented_element", "bulk: pop succeeded on an empty queue");
          count--;
        } else if (count != 0)
          vrt::fail("spurious_empty", "bulk: pop reported empty with %lu stored elements (k=%u segments=%u, %lu pushed so far)", (unsigned long)count, k, segs,
                    (unsigned long)total_pushed);
      }
      vrt::op_end();
    }
  }
  vrt::desc("\n");
  // drain a little and destroy
  delete q;
  vrt::fp(vh::hmix(k, segs) ^ vh::hmix(total_pushed, count));
  if (total_pushed > 65536) vrt::label("bulk:more_than_2^16_pushes");
  if (cap > 65536) vrt::label("product_above_2^16");
  if (total_pushed > (uint64_t)k * 3 || cap > 65536) vrt::nontrivial();
}

template <class A>
void run_q() {
  vrt::TagScope ts(vrt::TAG_HARNESS);
  auto* h = new QHarness<A>();
  vrt::set_alloc_tag(vrt::TAG_DEFAULT);
  h->run();
}

// ---- menus ---------------------------------------------------------------------------------------------
using HPd = rec::hazard_pointer<>::with<policy::allocation_strategy<rec::hp_allocation::dynamic_strategy<2, 0, 0>>>;
using HEd = rec::hazard_eras<>::with<policy::allocation_strategy<rec::he_allocation::dynamic_strategy<2, 0, 0>>>;
using EBR0 = rec::generic_epoch_based<>::with<policy::scan_frequency<0>, policy::scan<rec::scan::all_threads>, policy::abandon<rec::abandon::always>,
                                              policy::region_extension<rec::region_extension::none>>;
using NEBR1 = rec::generic_epoch_based<>::with<policy::scan_frequency<1>, policy::scan<rec::scan::one_thread>, policy::abandon<rec::abandon::never>,
                                               policy::region_extension<rec::region_extension::eager>>;
using QSBR = rec::quiescent_state_based;
using STAMP = rec::stamp_it;
using LFRC = rec::lock_free_ref_count<>::with<policy::thread_local_free_list_size<2>>;
using UP = std::unique_ptr<Tracked>;

template <class T, class R>
using MS = michael_scott_queue<T, policy::reclaimer<R>>;
template <class T, class R, unsigned N, unsigned P>
using RAM = ramalhete_queue<T, policy::reclaimer<R>, policy::entries_per_node<N>, policy::pop_retries<P>>;
template <class T, class R, unsigned N, unsigned P>
using NIK = nikolaev_queue<T, policy::reclaimer<R>, policy::entries_per_node<N>, policy::pop_retries<P>>;
template <class T, unsigned P>
using NIKB = nikolaev_bounded_queue<T, policy::pop_retries<P>>;
template <class T>
using VYU = vyukov_bounded_queue<T>;
template <class T, class R>
using KK = kirsch_kfifo_queue<T, policy::reclaimer<R>>;
template <class T>
using KB = kirsch_bounded_kfifo_queue<T>;

#define QC(name, Q, E, SK, tags) vrt::Cfg{name, &run_q<Adapter<Q, E, SK>>, tags}
#define COMMA ,

const vrt::Cfg cfgs[] = {
#if QHIST_GROUP == 0
  QC("ms_tracked_hp", MS<Tracked COMMA HPd>, Tracked, S_FIFO, "C04,C07,ms,quick"),
  QC("ms_tracked_ebr", MS<Tracked COMMA EBR0>, Tracked, S_FIFO, "C04,C07,ms,quick"),
  QC("ms_up_stamp", MS<UP COMMA STAMP>, UP, S_FIFO, "C04,C07,ms,quick"),
  QC("ms_u32_he", MS<uint32_t COMMA HEd>, uint32_t, S_FIFO, "C04,ms"),
  QC("ms_tracked_lfrc", MS<Tracked COMMA LFRC>, Tracked, S_FIFO, "C04,C07,ms"),
  QC("ms_tracked_qsbr", MS<Tracked COMMA QSBR>, Tracked, S_FIFO, "C04,C07,ms"),
  QC("ms_up_nebr", MS<UP COMMA NEBR1>, UP, S_FIFO, "C04,C07,ms"),
#elif QHIST_GROUP == 1
  QC("ram_up_hp_n2_r1", RAM<UP COMMA HPd COMMA 2 COMMA 1>, UP, S_FIFO, "C04,C07,ram,quick"),
  QC("ram_up_ebr_n1_r0", RAM<UP COMMA EBR0 COMMA 1 COMMA 0>, UP, S_FIFO, "C04,C07,ram,quick"),
  QC("ram_raw_stamp_n3_r2", RAM<Tracked* COMMA STAMP COMMA 3 COMMA 2>, Tracked*, S_FIFO, "C04,C07,ram,quick"),
  QC("ram_u32_he_n2_r0", RAM<uint32_t COMMA HEd COMMA 2 COMMA 0>, uint32_t, S_FIFO, "C04,ram,quick"),
  QC("ram_up_qsbr_n3_r1", RAM<UP COMMA QSBR COMMA 3 COMMA 1>, UP, S_FIFO, "C04,C07,ram"),
  QC("ram_raw_lfrc_n2_r2", RAM<Tracked* COMMA LFRC COMMA 2 COMMA 2>, Tracked*, S_FIFO, "C04,C07,ram"),
  QC("ram_up_nebr_n1_r1", RAM<UP COMMA NEBR1 COMMA 1 COMMA 1>, UP, S_FIFO, "C04,C07,ram"),
#elif QHIST_GROUP == 2
  QC("nik_tracked_hp_n2_r2", NIK<Tracked COMMA HPd COMMA 2 COMMA 2>, Tracked, S_FIFO, "C04,C07,nik,quick"),
  QC("nik_tracked_ebr_n1_r0", NIK<Tracked COMMA EBR0 COMMA 1 COMMA 0>, Tracked, S_FIFO, "C04,C07,nik,quick"),
  QC("nik_up_stamp_n4_r0", NIK<UP COMMA STAMP COMMA 4 COMMA 0>, UP, S_FIFO, "C04,C07,nik,quick"),
  QC("nik_u32_he_n2_r0", NIK<uint32_t COMMA HEd COMMA 2 COMMA 0>, uint32_t, S_FIFO, "C04,nik"),
  QC("nik_tracked_qsbr_n4_r2", NIK<Tracked COMMA QSBR COMMA 4 COMMA 2>, Tracked, S_FIFO, "C04,C07,nik"),
  QC("nik_up_lfrc_n2_r2", NIK<UP COMMA LFRC COMMA 2 COMMA 2>, UP, S_FIFO, "C04,C07,nik"),
#elif QHIST_GROUP == 3
  QC("nikb_tracked_r0", NIKB<Tracked COMMA 0>, Tracked, S_NIKB, "C05,C07,nikb,quick"),
  QC("nikb_up_r2", NIKB<UP COMMA 2>, UP, S_NIKB, "C05,C07,nikb,quick"),
  QC("nikb_u32_r1000", NIKB<uint32_t COMMA 1000>, uint32_t, S_NIKB, "C05,nikb,quick"),
  QC("vyu_tracked", VYU<Tracked>, Tracked, S_VYU, "C05,C07,vyu,quick"),
  QC("vyu_up", VYU<UP>, UP, S_VYU, "C05,C07,vyu,quick"),
  QC("vyu_u32", VYU<uint32_t>, uint32_t, S_VYU, "C05,vyu"),
#elif QHIST_GROUP == 4
  QC("kk_up_hp", KK<UP COMMA HPd>, UP, S_KK, "C06,C07,kk,quick"),
  QC("kk_raw_ebr", KK<Tracked* COMMA EBR0>, Tracked*, S_KK, "C06,C07,kk,quick"),
  QC("kk_raw_stamp", KK<Tracked* COMMA STAMP>, Tracked*, S_KK, "C06,C07,kk,quick"),
  QC("kk_up_qsbr", KK<UP COMMA QSBR>, UP, S_KK, "C06,C07,kk"),
  QC("kk_up_he", KK<UP COMMA HEd>, UP, S_KK, "C06,C07,kk"),
  vrt::Cfg{"kb_bulk", &run_bulk<kirsch_bounded_kfifo_queue<int*>, true>, "large"},
  vrt::Cfg{"kk_bulk_hp", &run_bulk<kirsch_kfifo_queue<int* COMMA policy::reclaimer<HPd>>, false>, "large"},
  vrt::Cfg{"kb_large_raw", &run_q_large<Adapter<KB<Tracked*>, Tracked*, S_KB>>, "large"},
  vrt::Cfg{"kb_large_up", &run_q_large<Adapter<KB<UP>, UP, S_KB>>, "large"},
  vrt::Cfg{"kk_large_up_hp", &run_q_large<Adapter<KK<UP COMMA HPd>, UP, S_KK>>, "large"},
  QC("kb_up", KB<UP>, UP, S_KB, "C06,C07,kb,quick"),
  QC("kb_raw", KB<Tracked*>, Tracked*, S_KB, "C06,C07,kb,quick"),
#else
  #error "QHIST_GROUP"
#endif
};

#define STR2(x) #x
#define STR(x) STR2(x)
const vrt::Harness harness{"qhist" STR(QHIST_GROUP), cfgs, (int)(sizeof cfgs / sizeof cfgs[0])};
} // namespace

extern "C" const vrt::Harness* vrt_harness() {
  return &harness;
}
