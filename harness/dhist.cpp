// dhist — chase_work_stealing_deque (C12): one owner (try_push / try_pop), 1-3 thieves (try_steal),
// growth of the circular array at arbitrary index offsets.
#include "prelude_begin.hpp"

#include <xenium/chase_work_stealing_deque.hpp>
#include <xenium/detail/fixed_size_circular_array.hpp>
#include <xenium/detail/growing_circular_array.hpp>

#include "prelude_end.hpp"

#include "hcommon.hpp"
#include "lin.hpp"

using namespace xenium;

namespace {

constexpr int MAXID = 250;
constexpr int MAXT = 4;
constexpr int MAXOPS = 8;
int g_items[MAXID]; // the deque stores pointers to these; the value is the id

enum { D_NOP = 0, D_PUSH, D_POP, D_STEAL };

struct DOp : lin::OpBase {
  uint8_t kind = 0;
  bool ok = false;
  int id = 0;
  bool overlapped_removal = false; // a successful pop/steal of another thread overlaps this operation
};

struct DSpec {
  using Op = DOp;
  struct State {
    uint16_t n = 0;
    uint8_t v[128];
  };
  uint32_t cap = 0; // 0 = growing
  bool failures_free = false; // weak executions (C03): only hand-out order and exactly-once are guaranteed
  uint64_t hash(const State& s) const {
    uint64_t h = s.n;
    for (int i = 0; i < s.n; ++i) h = vh::hmix(h, s.v[i]);
    return h;
  }
  bool equal(const State& a, const State& b) const { return a.n == b.n && memcmp(a.v, b.v, a.n) == 0; }
  int alternatives(const Op&) const { return 1; }
  bool apply(State& s, const Op& o, int = 0) const {
    switch (o.kind) {
    case D_PUSH:
      if (o.ok) {
        if (s.n >= 128 || (cap && s.n >= cap)) return false;
        s.v[s.n++] = (uint8_t)o.id;
        return true;
      }
      return failures_free || (cap && s.n >= cap); // only a fixed-size container at capacity rejects
    case D_POP:
      if (o.ok) {
        if (s.n == 0 || s.v[s.n - 1] != o.id) return false;
        s.n--;
        return true;
      }
      return failures_free || s.n == 0;
    case D_STEAL:
      if (o.ok) {
        if (s.n == 0 || s.v[0] != o.id) return false;
        for (int i = 1; i < s.n; ++i) s.v[i - 1] = s.v[i];
        s.n--;
        return true;
      }
      return failures_free || s.n == 0 || o.overlapped_removal; // try_steal may fail when it loses a race
    default: return true;
    }
  }
};

template <class Q, uint32_t CAP, bool GROW>
struct DHarness {
  Q* q = nullptr;
  uint8_t owner[MAXOPS + 4];
  uint8_t thief[3][MAXOPS];
  int nthieves = 1;
  vh::hvec<DOp> hist[MAXT + 1];
  int next_id = 1;
  bool handed[MAXID] = {};

  void exec(uint8_t kind, vh::hvec<DOp>& h) {
    DOp r;
    r.tid = vrt::self();
    r.kind = kind;
    if (kind == D_PUSH) {
      if (next_id >= MAXID - 1) return;
      r.id = next_id++;
      g_items[r.id] = r.id;
      vrt::op_begin(1);
      vrt::stamp(&r.inv);
      r.ok = q->try_push(&g_items[r.id]);
      vrt::stamp(&r.resp);
      vrt::op_end();
    } else {
      int* out = nullptr;
      vrt::op_begin(1);
      vrt::stamp(&r.inv);
      r.ok = kind == D_POP ? q->try_pop(out) : q->try_steal(out);
      vrt::stamp(&r.resp);
      vrt::op_end();
      if (r.ok) {
        if (out < &g_items[1] || out >= &g_items[MAXID] || *out != (int)(out - g_items) || (int)(out - g_items) >= next_id)
          vrt::fail("invented_item", "%s returned a pointer (%p) that was never pushed", kind == D_POP ? "try_pop" : "try_steal", (void*)out);
        r.id = (int)(out - g_items);
        if (handed[r.id]) vrt::fail("item_handed_out_twice", "item %d was returned by two successful try_pop/try_steal calls", r.id);
        handed[r.id] = true;
      }
    }
    h.push_back(r);
  }

  void run() {
    const bool seq = vrt::param("sequential", 0) != 0;
    nthieves = seq ? 0 : 1 + (int)vrt::choose(3);
    // sequential prefix: traffic that moves top/bottom to a generated offset, then a fill level
    uint32_t offset = vrt::choose(seq ? 10000 : 5 * CAP + 1);
    uint32_t fill = vrt::choose(CAP + 2);
    bool offset_by_steal = vrt::choose(2) == 0;
    static const uint32_t wo[3] = {2, 5, 3};
    for (int i = 0; i < MAXOPS + 4; ++i) owner[i] = (uint8_t)vrt::weighted(wo, 3); // nop / push / pop
    for (int t = 0; t < 3; ++t)
      for (int i = 0; i < MAXOPS; ++i) thief[t][i] = (uint8_t)(vrt::choose(3) == 0 ? D_NOP : D_STEAL);
    if (vrt::want_desc()) {
      vrt::desc("capacity=%u %s offset=%u(%s) fill=%u thieves=%d\n  owner:", CAP, GROW ? "growing" : "fixed", offset, offset_by_steal ? "push+steal" : "push+pop", fill,
                nthieves);
      for (int i = 0; i < MAXOPS + 4; ++i)
        if (owner[i]) vrt::desc(" %s", owner[i] == D_PUSH ? "push" : "pop");
      vrt::desc("\n");
      for (int t = 0; t < nthieves; ++t) {
        int n = 0;
        for (int i = 0; i < MAXOPS; ++i) n += thief[t][i] != 0;
        vrt::desc("  thief%d: steal x%d\n", t + 1, n);
      }
    }
    uint64_t ph = vh::hmix(offset, fill * 4 + (uint64_t)nthieves);
    for (int i = 0; i < MAXOPS + 4; ++i) ph = vh::hmix(ph, owner[i]);
    for (int t = 0; t < nthieves; ++t)
      for (int i = 0; i < MAXOPS; ++i) ph = vh::hmix(ph, thief[t][i] + 8 * t);
    vrt::fp(ph);

    q = new Q();
    // offset traffic is not part of the checked history (it would exceed 64 operations), but it is checked directly
    static int dummy = -1;
    for (uint32_t i = 0; i < offset; ++i) {
      int* out = nullptr;
      if (!q->try_push(&dummy)) vrt::fail("prefix", "try_push failed on an empty deque");
      bool ok = offset_by_steal ? q->try_steal(out) : q->try_pop(out);
      if (!ok || out != &dummy) vrt::fail("prefix", "push followed by %s did not return the pushed item (offset %u)", offset_by_steal ? "steal" : "pop", i);
    }
    for (uint32_t i = 0; i < fill; ++i) exec(D_PUSH, hist[MAXT]);
    uint64_t allocs0 = vrt::alloc_count(vrt::TAG_DEFAULT);

    vrt::concurrent_phase(true);
    {
      vh::Threads th;
      th.start([this] {
        for (int i = 0; i < MAXOPS + 4; ++i)
          if (owner[i]) {
            vrt::point();
            exec(owner[i], hist[0]);
          }
      });
      for (int t = 0; t < nthieves; ++t)
        th.start([this, t] {
          for (int i = 0; i < MAXOPS; ++i)
            if (thief[t][i]) {
              vrt::point();
              exec(D_STEAL, hist[t + 1]);
            }
        });
      th.join_all();
    }
    vrt::concurrent_phase(false);
    bool grew = vrt::alloc_count(vrt::TAG_DEFAULT) > allocs0;
    // final drain by the owner
    for (int i = 0; i < 140; ++i) {
      size_t before = hist[MAXT].size();
      exec(i % 2 ? D_POP : D_STEAL, hist[MAXT]);
      if (hist[MAXT].size() == before || !hist[MAXT].back().ok) break;
    }
    for (int id = 1; id < next_id; ++id) {
      bool accepted = false;
      for (int t = 0; t <= MAXT; ++t)
        for (auto& o : hist[t])
          if (o.kind == D_PUSH && o.id == id && o.ok) accepted = true;
      if (accepted && !handed[id]) vrt::fail("item_lost", "item %d was accepted by try_push but never handed out, not even by the final drain", id);
    }

    vh::hvec<DOp> all;
    for (int t = 0; t <= MAXT; ++t)
      for (auto& o : hist[t]) all.push_back(o);
    DSpec spec;
    spec.cap = GROW ? 0 : CAP;
    spec.failures_free = vrt::weak_mode();
    lin::Checker<DSpec> pre(spec, all);
    bool steal_overlapped_grow_or_last = false, overlap = false;
    for (size_t i = 0; i < all.size(); ++i)
      for (size_t j = 0; j < all.size(); ++j)
        if (i != j && !(pre.pred[i] & (1ull << j)) && !(pre.pred[j] & (1ull << i))) {
          overlap = true;
          if (all[i].kind == D_STEAL && (all[j].kind == D_POP || all[j].kind == D_STEAL) && all[j].ok) all[i].overlapped_removal = true;
          if (all[i].kind == D_STEAL && all[j].kind == D_POP) steal_overlapped_grow_or_last = true;
        }
    lin::Checker<DSpec> chk(spec, all);
    DSpec::State init;
    if (!chk.run(init)) {
      vrt::desc("history (not linearizable):\n");
      for (auto& o : all)
        vrt::desc("  t%d %s -> %s id=%d [%lu,%lu]\n", o.tid, o.kind == D_PUSH ? "push" : o.kind == D_POP ? "pop" : "steal", o.ok ? "ok" : "fail", o.id,
                  (unsigned long)o.inv.step, (unsigned long)o.resp.step);
      vrt::fail("not_linearizable", "history of %zu operations has no linearization w.r.t. the deque specification (longest consistent prefix: %zu)", all.size(),
                chk.deepest_order.size());
    }
    delete q;
    uint64_t hh = 0;
    for (auto& o : all) hh = vh::hmix(hh, (uint64_t)o.kind + 8 * (uint64_t)o.ok + 16 * (uint64_t)o.id);
    vrt::fp(hh);
    if (grew) vrt::label("grew_in_concurrent_part");
    if (grew && (offset % CAP) != 0) vrt::label("grew_at_nonzero_offset");
    if (overlap) vrt::label("operations_overlapped");
    if (seq) {
      if (offset > 0) vrt::nontrivial();
    } else if ((grew && (offset % CAP) != 0) || (steal_overlapped_grow_or_last && overlap))
      vrt::nontrivial();
  }
};

template <uint32_t CAP>
using GrowQ = chase_work_stealing_deque<int, policy::capacity<CAP>>;
template <uint32_t CAP>
using FixedQ = chase_work_stealing_deque<int, policy::capacity<CAP>, policy::container<detail::fixed_size_circular_array<int, CAP>>>;

template <class Q, uint32_t CAP, bool GROW>
void run_d() {
  vrt::TagScope ts(vrt::TAG_HARNESS);
  auto* h = new DHarness<Q, CAP, GROW>();
  vrt::set_alloc_tag(vrt::TAG_DEFAULT);
  h->run();
}

const vrt::Cfg cfgs[] = {
  vrt::Cfg{"grow2", &run_d<GrowQ<2>, 2, true>, "quick,grow"},
  vrt::Cfg{"grow4", &run_d<GrowQ<4>, 4, true>, "quick,grow"},
  vrt::Cfg{"grow8", &run_d<GrowQ<8>, 8, true>, "quick,grow"},
  vrt::Cfg{"fixed2", &run_d<FixedQ<2>, 2, false>, "quick,fixed"},
  vrt::Cfg{"fixed4", &run_d<FixedQ<4>, 4, false>, "quick,fixed"},
  vrt::Cfg{"fixed8", &run_d<FixedQ<8>, 8, false>, "fixed"},
};
const vrt::Harness harness{"dhist", cfgs, (int)(sizeof cfgs / sizeof cfgs[0])};
} // namespace

extern "C" const vrt::Harness* vrt_harness() {
  return &harness;
}
