// fuzzseq — Engine B: native build (real std::atomic), one thread, AddressSanitizer + UBSan, driven by libFuzzer
// (coverage guided) or by a plain file replay. The bytes are decoded into a structured operation sequence for one
// container family; the oracle is a reference model compared after every step, a full scan at the end and an element
// lifecycle census. Complements Engine A (which owns schedules but has no stack/global redzones and no coverage
// feedback): deep sequential states - bucket overflow + growth + iterator erase in vyukov_hash_map, index arithmetic far
// from zero in the deque, ring wrap-arounds, odd element sizes in seqlock.
//
// Families (first byte selects, restricted by VFUZZ_FAMILIES=a,b,...):
//   vyu_ii vyu_ss vyu_sc   vyukov_hash_map<int,int> / <string,string> / <string,string> with a constant hash   C10 C11
//   hm_map hm_map_memo hm_set   harris_michael_hash_map (4 buckets, colliding hash) / list based set            C08 C09
//   deque_grow deque_fixed    chase_work_stealing_deque                                                          C12
//   q_ms q_ram q_nik (C04)  q_nikb q_vyu (C05)  q_kk q_kb (C06); all with unique_ptr payloads                    C07
//   seqlock                   seqlock<T,slots> for sizes 12/20/24/10/9 bytes                                      C14
#include <algorithm>
#include <array>
#include <atomic>
#include <cassert>
#include <cstddef>
#include <cstdint>
#include <cstdio>
#include <cstdlib>
#include <cstring>
#include <deque>
#include <functional>
#include <map>
#include <memory>
#include <mutex>
#include <new>
#include <optional>
#include <random>
#include <set>
#include <stdexcept>
#include <string>
#include <thread>
#include <type_traits>
#include <utility>
#include <vector>
#include <stdarg.h>

#include <xenium/utils.hpp> // the original utils::random() (rdtsc) is defined under its own name ...
static uint64_t g_random_state = 0;
namespace xenium::utils {
inline std::uint64_t vfuzz_random() { // ... and the containers get a deterministic replacement, fed from the input
  g_random_state = g_random_state * 6364136223846793005ull + 1442695040888963407ull;
  return g_random_state >> 33;
}
} // namespace xenium::utils
#define random vfuzz_random
#include <xenium/kirsch_bounded_kfifo_queue.hpp>
#include <xenium/kirsch_kfifo_queue.hpp>
#undef random

#include <xenium/chase_work_stealing_deque.hpp>
#include <xenium/harris_michael_hash_map.hpp>
#include <xenium/harris_michael_list_based_set.hpp>
#include <xenium/michael_scott_queue.hpp>
#include <xenium/nikolaev_bounded_queue.hpp>
#include <xenium/nikolaev_queue.hpp>
#include <xenium/ramalhete_queue.hpp>
#include <xenium/reclamation/generic_epoch_based.hpp>
#include <xenium/reclamation/hazard_pointer.hpp>
#include <xenium/reclamation/stamp_it.hpp>
#include <xenium/seqlock.hpp>
#include <xenium/vyukov_bounded_queue.hpp>
#include <xenium/vyukov_hash_map.hpp>

using namespace xenium;
namespace rec = xenium::reclamation;

namespace {

// ---- input, failure reporting, statistics ------------------------------------------------------------------------
struct In {
  const uint8_t* p;
  size_t n, i = 0;
  uint8_t u8() { return i < n ? p[i++] : 0; }
  unsigned below(unsigned m) { return m ? u8() % m : 0; }
  bool done() const { return i >= n; }
};

enum Fam { VYU_II, VYU_SS, VYU_SC, HM_MAP, HM_MAP_MEMO, HM_SET, DEQUE_GROW, DEQUE_FIXED, Q_MS, Q_RAM, Q_NIK, Q_NIKB, Q_VYU, Q_KK, Q_KB, SEQLOCK, NFAM };
const char* const fam_name[NFAM] = {"vyu_ii", "vyu_ss", "vyu_sc", "hm_map", "hm_map_memo", "hm_set", "deque_grow", "deque_fixed",
                                    "q_ms", "q_ram", "q_nik", "q_nikb", "q_vyu", "q_kk", "q_kb", "seqlock"};

struct Stats {
  uint64_t cases[NFAM], nontrivial[NFAM], ops[NFAM];
  uint64_t labels[24];
} S;
const char* const label_name[24] = {"vyu_iterator_erase", "vyu_grew_past_initial_capacity", "vyu_bucket_of_4_or_more_keys", "vyu_extract", "hm_erase_under_iterator",
                                    "hm_complete_traversal_with_updates", "hm_erase_iterator", "deque_grew_at_nonzero_offset", "deque_grew", "deque_full_rejected",
                                    "queue_wrapped_capacity", "queue_full_rejected", "queue_empty_reported", "queue_destroyed_nonempty", "kfifo_out_of_order_pop",
                                    "seqlock_odd_size", "seqlock_update", "vyu_find_erase", "hm_reinsert_during_traversal", "queue_pop_optional", "", "", "", ""};
enum Label { L_VYU_ITER_ERASE, L_VYU_GREW, L_VYU_BUCKET4, L_VYU_EXTRACT, L_HM_ERASE_UNDER, L_HM_COMPLETE, L_HM_ERASE_IT, L_DQ_GROW_OFF, L_DQ_GREW, L_DQ_FULL,
             L_Q_WRAP, L_Q_FULL, L_Q_EMPTY, L_Q_DESTROY_NONEMPTY, L_KFIFO_OOO, L_SL_ODD, L_SL_UPDATE, L_VYU_FIND_ERASE, L_HM_REINSERT, L_Q_POPOPT };
void label(Label l) { S.labels[l]++; }

bool g_dump = false;
int g_fam = 0;
void dumpf(const char* fmt, ...) {
  if (!g_dump) return;
  va_list ap;
  va_start(ap, fmt);
  vprintf(fmt, ap);
  va_end(ap);
}

void write_stats() {
  const char* path = getenv("VFUZZ_STATS");
  if (!path) return;
  FILE* f = fopen(path, "w");
  if (!f) return;
  fprintf(f, "{\"families\":{");
  bool first = true;
  for (int i = 0; i < NFAM; ++i)
    if (S.cases[i]) {
      fprintf(f, "%s\"%s\":[%llu,%llu,%llu]", first ? "" : ",", fam_name[i], (unsigned long long)S.cases[i], (unsigned long long)S.nontrivial[i], (unsigned long long)S.ops[i]);
      first = false;
    }
  fprintf(f, "},\"labels\":{");
  first = true;
  for (int i = 0; i < 24; ++i)
    if (S.labels[i]) {
      fprintf(f, "%s\"%s\":%llu", first ? "" : ",", label_name[i], (unsigned long long)S.labels[i]);
      first = false;
    }
  fprintf(f, "}}\n");
  fclose(f);
}

[[noreturn]] void fail(const char* kind, const char* fmt, ...) {
  char msg[600];
  va_list ap;
  va_start(ap, fmt);
  vsnprintf(msg, sizeof msg, fmt, ap);
  va_end(ap);
  fprintf(stderr, "VFUZZ-FAIL family=%s kind=%s message=%s\n", fam_name[g_fam], kind, msg);
  fflush(stderr);
  write_stats(); // a trap skips atexit
  __builtin_trap();
}

// ---- tracked payload (C07 census) --------------------------------------------------------------------------------------
long g_live = 0;
struct Tracked {
  int id;
  uint32_t canary = 0xC0FFEE;
  explicit Tracked(int i) : id(i) { ++g_live; }
  Tracked(const Tracked&) = delete;
  ~Tracked() {
    if (canary != 0xC0FFEE) fail("double_destroy", "element %d destroyed twice", id);
    canary = 0xDEAD;
    --g_live;
  }
};
using UP = std::unique_ptr<Tracked>;

using EBR0 = rec::generic_epoch_based<>::with<policy::scan_frequency<0>, policy::scan<rec::scan::all_threads>, policy::abandon<rec::abandon::always>,
                                              policy::region_extension<rec::region_extension::none>>;
using HPd = rec::hazard_pointer<>::with<policy::allocation_strategy<rec::hp_allocation::dynamic_strategy<3, 0, 0>>>;
using STAMP = rec::stamp_it;

// ====================================================================================================================
// vyukov_hash_map                                                                                             C10 / C11
// ====================================================================================================================
const char* const KPFX = "key-with-a-long-prefix-to-defeat-sso-";
const char* const VPFX = "value-with-a-long-prefix-to-defeat-sso-";
template <class T>
struct Conv;
template <>
struct Conv<int> {
  static int key(int k) { return k; }
  static int val(int v) { return v; }
  static int back(const int& x, const char*) { return x; }
};
template <>
struct Conv<std::string> {
  static std::string key(int k) { return KPFX + std::to_string(k); }
  static std::string val(int v) { return VPFX + std::to_string(v); }
  static int back(const std::string& s, const char* pfx) {
    if (s.compare(0, strlen(pfx), pfx) != 0) fail("torn_value", "string '%s' was never stored", s.c_str());
    return atoi(s.c_str() + strlen(pfx));
  }
};
struct SHash {
  std::size_t operator()(const std::string& s) const { return (std::size_t)Conv<std::string>::back(s, KPFX); }
};
struct SHashConst {
  std::size_t operator()(const std::string&) const { return 5; }
};

template <class Map, class KV>
void run_vyukov(In& in, bool const_hash) {
  using Acc = typename Map::accessor;
  using It = typename Map::iterator;
  static const unsigned caps[4] = {8, 16, 64, 128};
  unsigned cap = caps[in.below(4)];
  unsigned stride = in.below(2) ? cap : (in.below(2) ? 128 : 1); // keys colliding in one bucket of the initial table
  Map m(cap);
  std::map<int, int> model;
  int next_val = 1;
  unsigned nops = 0, removals = 0, inserts = 0;
  size_t maxsize = 0;
  dumpf("vyukov map: initial capacity %u, key stride %u\n", cap, stride);
  auto keyof = [&](uint8_t b) { return (int)((b & 15) * stride + (b >> 4) % 3); };
  auto check_iteration = [&](bool erase_some, uint8_t pat) {
    std::map<int, int> seen;
    std::map<int, int> before = model;
    It it = m.begin();
    unsigned step = 0;
    while (it != m.end()) {
      auto kv = *it;
      int k = Conv<KV>::back(kv.first, KPFX), v = Conv<KV>::back(kv.second, VPFX);
      if (seen.count(k)) fail("yielded_twice", "traversal without concurrent updates yields key %d twice", k);
      auto f = before.find(k);
      if (f == before.end() || f->second != v) fail("wrong_element", "traversal yields (%d,%d) which is not in the map", k, v);
      seen[k] = v;
      if (erase_some && ((pat >> (step % 8)) & 1)) {
        dumpf("    erase(it) at key %d\n", k);
        m.erase(it); // leaves the iterator on the next not-yet-visited element
        model.erase(k);
        removals++;
        label(L_VYU_ITER_ERASE);
      } else
        ++it;
      if (++step > 4000) fail("traversal_does_not_end", "traversal of %zu elements took more than 4000 steps", before.size());
    }
    if (seen.size() != before.size()) {
      for (auto& e : before)
        if (!seen.count(e.first)) fail("element_skipped", "a full traversal without concurrent updates did not yield key %d (%zu of %zu yielded)", e.first, seen.size(), before.size());
    }
  };
  while (!in.done() && nops < 400) {
    uint8_t op = in.u8(), kb = in.u8();
    int k = keyof(kb);
    auto key = Conv<KV>::key(k);
    auto mi = model.find(k);
    nops++;
    switch (op % 12) {
    case 0:
    case 1: {
      int v = next_val++;
      bool ok = m.emplace(key, Conv<KV>::val(v));
      dumpf("  emplace(%d,%d) -> %d\n", k, v, (int)ok);
      if (ok != (mi == model.end())) fail("wrong_result", "emplace(%d) returned %d but the key was %s", k, (int)ok, mi == model.end() ? "absent" : "present");
      if (ok) model[k] = v, inserts++;
      break;
    }
    case 2: {
      int v = next_val++;
      auto r = m.get_or_emplace(key, Conv<KV>::val(v));
      int got = Conv<KV>::back(*r.first, VPFX);
      dumpf("  get_or_emplace(%d,%d) -> (%d,%d)\n", k, v, got, (int)r.second);
      if (r.second != (mi == model.end())) fail("wrong_result", "get_or_emplace(%d) inserted=%d but the key was %s", k, (int)r.second, mi == model.end() ? "absent" : "present");
      if (got != (r.second ? v : mi->second)) fail("wrong_element", "get_or_emplace(%d) gives value %d, expected %d", k, got, r.second ? v : mi->second);
      if (r.second) model[k] = v, inserts++;
      break;
    }
    case 3: {
      int v = next_val++;
      bool called = false;
      auto r = m.get_or_emplace_lazy(key, [&] {
        called = true;
        return Conv<KV>::val(v);
      });
      int got = Conv<KV>::back(*r.first, VPFX);
      dumpf("  get_or_emplace_lazy(%d,%d) -> (%d,%d)\n", k, v, got, (int)r.second);
      if (r.second != called) fail("wrong_result", "get_or_emplace_lazy(%d): inserted=%d, factory called=%d", k, (int)r.second, (int)called);
      if (r.second != (mi == model.end())) fail("wrong_result", "get_or_emplace_lazy(%d) inserted=%d but the key was %s", k, (int)r.second, mi == model.end() ? "absent" : "present");
      if (got != (r.second ? v : mi->second)) fail("wrong_element", "get_or_emplace_lazy(%d) gives value %d, expected %d", k, got, r.second ? v : mi->second);
      if (r.second) model[k] = v, inserts++;
      break;
    }
    case 4: {
      bool ok = m.erase(key);
      dumpf("  erase(%d) -> %d\n", k, (int)ok);
      if (ok != (mi != model.end())) fail("wrong_result", "erase(%d) returned %d but the key was %s", k, (int)ok, mi == model.end() ? "absent" : "present");
      if (ok) model.erase(mi), removals++;
      break;
    }
    case 5: {
      Acc acc;
      bool ok = m.extract(key, acc);
      dumpf("  extract(%d) -> %d\n", k, (int)ok);
      if (ok != (mi != model.end())) fail("wrong_result", "extract(%d) returned %d but the key was %s", k, (int)ok, mi == model.end() ? "absent" : "present");
      if (ok) {
        int got = Conv<KV>::back(*acc, VPFX);
        if (got != mi->second) fail("wrong_element", "extract(%d) hands out value %d, the map held %d", k, got, mi->second);
        model.erase(mi), removals++;
        label(L_VYU_EXTRACT);
      }
      break;
    }
    case 6:
    case 7: {
      Acc acc;
      bool ok = m.try_get_value(key, acc);
      dumpf("  try_get_value(%d) -> %d\n", k, (int)ok);
      if (ok != (mi != model.end())) fail("wrong_result", "try_get_value(%d) returned %d but the key was %s", k, (int)ok, mi == model.end() ? "absent" : "present");
      if (ok && Conv<KV>::back(*acc, VPFX) != mi->second) fail("wrong_element", "try_get_value(%d) gives %d, the map holds %d", k, Conv<KV>::back(*acc, VPFX), mi->second);
      break;
    }
    case 8: { // find, dereference, optionally erase through the iterator and continue a few steps
      uint8_t what = in.u8();
      It it = m.find(key);
      bool ok = it != m.end();
      dumpf("  find(%d) -> %d, then %s\n", k, (int)ok, (what & 1) ? "erase(it)" : "reset");
      if (ok != (mi != model.end())) fail("wrong_result", "find(%d) found=%d but the key was %s", k, (int)ok, mi == model.end() ? "absent" : "present");
      if (ok) {
        auto kv = *it;
        if (Conv<KV>::back(kv.first, KPFX) != k || Conv<KV>::back(kv.second, VPFX) != mi->second)
          fail("wrong_element", "find(%d) refers to (%d,%d), expected (%d,%d)", k, Conv<KV>::back(kv.first, KPFX), Conv<KV>::back(kv.second, VPFX), k, mi->second);
        if (what & 1) {
          m.erase(it);
          model.erase(mi), removals++;
          label(L_VYU_FIND_ERASE);
          unsigned more = (what >> 1) & 3; // the iterator is on the next not-yet-visited element: it must be a live one, not k
          std::set<int> seen;
          while (more-- && it != m.end()) {
            auto kv2 = *it;
            int k2 = Conv<KV>::back(kv2.first, KPFX);
            auto f = model.find(k2);
            if (f == model.end() || f->second != Conv<KV>::back(kv2.second, VPFX) || !seen.insert(k2).second)
              fail("wrong_element", "after erase(find(%d)) the iterator refers to (%d,%d) which is not a live, not yet visited element", k, k2, Conv<KV>::back(kv2.second, VPFX));
            ++it;
          }
        }
      }
      it.reset();
      break;
    }
    case 9: dumpf("  full traversal\n"); check_iteration(false, 0); break;
    case 10: {
      uint8_t pat = in.u8();
      dumpf("  traversal erasing with pattern %02x\n", pat);
      check_iteration(true, pat);
      break;
    }
    case 11: { // bulk insert: several keys of one bucket (extension items, growth)
      unsigned n = 2 + kb % 12;
      dumpf("  bulk insert of %u keys from %d step %u\n", n, k, stride);
      for (unsigned j = 0; j < n; ++j) {
        int kk = k + (int)(j * stride);
        int v = next_val++;
        bool ok = m.emplace(Conv<KV>::key(kk), Conv<KV>::val(v));
        bool absent = !model.count(kk);
        if (ok != absent) fail("wrong_result", "emplace(%d) returned %d but the key was %s", kk, (int)ok, absent ? "absent" : "present");
        if (ok) model[kk] = v, inserts++;
      }
      break;
    }
    }
    maxsize = std::max(maxsize, model.size());
    // the map stays fully usable after every iterator use: a lock-free read of an arbitrary key
    {
      int pk = keyof((uint8_t)(kb * 7 + op));
      Acc acc;
      bool ok = m.try_get_value(Conv<KV>::key(pk), acc);
      auto f = model.find(pk);
      if (ok != (f != model.end())) fail("wrong_result", "probe try_get_value(%d) returned %d but the key is %s", pk, (int)ok, f == model.end() ? "absent" : "present");
      if (ok && Conv<KV>::back(*acc, VPFX) != f->second) fail("wrong_element", "probe try_get_value(%d) gives %d, the map holds %d", pk, Conv<KV>::back(*acc, VPFX), f->second);
    }
  }
  check_iteration(false, 0);
  for (auto& e : model) { // every key individually
    Acc acc;
    if (!m.try_get_value(Conv<KV>::key(e.first), acc) || Conv<KV>::back(*acc, VPFX) != e.second) fail("lost_element", "final lookup of key %d fails", e.first);
  }
  S.ops[g_fam] += nops;
  if (maxsize > cap) label(L_VYU_GREW);
  if (maxsize >= 4 && (stride > 1 || const_hash)) label(L_VYU_BUCKET4);
  if (inserts >= 4 && removals >= 1 && maxsize >= 4) S.nontrivial[g_fam]++;
}

// ====================================================================================================================
// harris_michael_hash_map / harris_michael_list_based_set                                                    C08 / C09
// ====================================================================================================================
struct CollHash { // 4 buckets; keys k and k+4 share a bucket, keys k and k+8 share the hash value as well
  std::size_t operator()(const int& k) const { return (std::size_t)(k & 7); }
};
template <bool MEMO>
using HMMap = harris_michael_hash_map<int, int, policy::reclaimer<EBR0>, policy::hash<CollHash>, policy::buckets<4>, policy::memoize_hash<MEMO>>;
using HMSet = harris_michael_list_based_set<int, policy::reclaimer<HPd>>;

template <class C>
struct HMA;
template <bool MEMO>
struct HMA<HMMap<MEMO>> {
  using C = HMMap<MEMO>;
  using It = typename C::iterator;
  static constexpr bool is_map = true;
  static bool insert(C& c, unsigned variant, int k, int v, int& seen_v) {
    seen_v = -1; // unknown (plain emplace returns no reference to the element)
    switch (variant % 4) {
    case 0: return c.emplace(k, v);
    case 1: {
      auto r = c.emplace_or_get(k, v);
      seen_v = r.first->second;
      return r.second;
    }
    case 2: {
      auto r = c.get_or_emplace(k, v);
      seen_v = r.first->second;
      return r.second;
    }
    default: {
      bool called = false;
      auto r = c.get_or_emplace_lazy(k, [&] {
        called = true;
        return v;
      });
      if (called != r.second) fail("wrong_result", "get_or_emplace_lazy(%d): inserted=%d, factory called=%d", k, (int)r.second, (int)called);
      seen_v = r.first->second;
      return r.second;
    }
    }
  }
  static int key_of(It& it) { return it->first; }
  static int val_of(It& it) { return it->second; }
};
template <>
struct HMA<HMSet> {
  using C = HMSet;
  using It = typename C::iterator;
  static constexpr bool is_map = false;
  static bool insert(C& c, unsigned variant, int k, int v, int& seen_v) {
    seen_v = v;
    if (variant % 2 == 0) return c.emplace(k);
    auto r = c.emplace_or_get(k);
    if (*r.first != k) fail("wrong_element", "emplace_or_get(%d) returned an iterator to %d", k, *r.first);
    return r.second;
  }
  static int key_of(It& it) { return *it; }
  static int val_of(It&) { return 0; }
};

template <class C>
void run_hm(In& in) {
  using A = HMA<C>;
  using It = typename A::It;
  auto* cp = new C();
  C& c = *cp;
  std::map<int, int> model;
  int next_val = 1;
  unsigned nops = 0, inserts = 0, removals = 0;
  // one long-lived iterator that is advanced while the container is updated through other handles (C09)
  bool live = false, from_begin = false, updated_during = false;
  It it = c.end();
  std::set<int> yielded, ever, stable; // since the traversal started
  auto start_traversal = [&](It&& start, bool begin) {
    it = std::move(start);
    live = true;
    from_begin = begin;
    updated_during = false;
    yielded.clear();
    ever.clear();
    stable.clear();
    for (auto& e : model) ever.insert(e.first), stable.insert(e.first);
  };
  auto on_yield = [&]() {
    if (it == c.end()) {
      if (from_begin) {
        for (int k : stable)
          if (!yielded.count(k)) fail("stable_element_skipped", "a complete traversal did not yield key %d although it was in the container during the whole traversal", k);
        if (updated_during) label(L_HM_COMPLETE);
      }
      live = false;
      return;
    }
    int k = A::key_of(it);
    if (!ever.count(k)) fail("yielded_never_present", "the iterator yields key %d which was not in the container at any instant of the traversal", k);
    if (!yielded.insert(k).second) fail("yielded_twice", "the iterator yields key %d twice without a re-insertion", k);
    if (A::is_map) {
      auto f = model.find(k);
      if (f != model.end() && stable.count(k) && f->second != A::val_of(it)) fail("wrong_element", "the iterator yields (%d,%d) but the map holds value %d", k, A::val_of(it), f->second);
    }
  };
  auto model_insert = [&](int k, int v) {
    model[k] = v;
    inserts++;
    if (live) {
      updated_during = true;
      ever.insert(k);
      if (yielded.erase(k)) label(L_HM_REINSERT);
    }
  };
  auto model_erase = [&](int k) {
    model.erase(k);
    removals++;
    if (live) {
      updated_during = true;
      stable.erase(k);
      if (it != c.end() && A::key_of(it) == k) label(L_HM_ERASE_UNDER);
    }
  };
  dumpf("harris-michael %s\n", A::is_map ? "hash map (4 buckets, hash = key & 7)" : "list based set");
  while (!in.done() && nops < 400) {
    uint8_t op = in.u8(), kb = in.u8();
    int k = kb % 24;
    auto mi = model.find(k);
    nops++;
    switch (op % 12) {
    case 0:
    case 1:
    case 2: {
      int v = next_val++, seen_v = 0;
      bool ok = A::insert(c, op / 12, k, v, seen_v);
      dumpf("  insert/%u(%d,%d) -> %d\n", (op / 12) % 4, k, v, (int)ok);
      if (ok != (mi == model.end())) fail("wrong_result", "insert(%d) returned %d but the key was %s", k, (int)ok, mi == model.end() ? "absent" : "present");
      if (A::is_map && seen_v != -1 && seen_v != (ok ? v : mi->second)) fail("wrong_element", "insert(%d) refers to value %d, expected %d", k, seen_v, ok ? v : mi->second);
      if (ok) model_insert(k, v);
      break;
    }
    case 3:
    case 4: {
      bool ok = c.erase(k);
      dumpf("  erase(%d) -> %d\n", k, (int)ok);
      if (ok != (mi != model.end())) fail("wrong_result", "erase(%d) returned %d but the key was %s", k, (int)ok, mi == model.end() ? "absent" : "present");
      if (ok) model_erase(k);
      break;
    }
    case 5: {
      bool ok = c.contains(k);
      dumpf("  contains(%d) -> %d\n", k, (int)ok);
      if (ok != (mi != model.end())) fail("wrong_result", "contains(%d) returned %d but the key was %s", k, (int)ok, mi == model.end() ? "absent" : "present");
      break;
    }
    case 6: {
      It f = c.find(k);
      bool ok = f != c.end();
      dumpf("  find(%d) -> %d%s\n", k, (int)ok, (op & 64) ? ", erase(it)" : "");
      if (ok != (mi != model.end())) fail("wrong_result", "find(%d) found=%d but the key was %s", k, (int)ok, mi == model.end() ? "absent" : "present");
      if (ok) {
        if (A::key_of(f) != k || (A::is_map && A::val_of(f) != mi->second)) fail("wrong_element", "find(%d) refers to (%d,%d)", k, A::key_of(f), A::val_of(f));
        if (op & 64) {
          It nx = c.erase(std::move(f));
          model_erase(k);
          label(L_HM_ERASE_IT);
          if (nx != c.end()) {
            int k2 = A::key_of(nx);
            if (k2 == k || !model.count(k2)) fail("wrong_element", "erase(find(%d)) returned an iterator to key %d which is not a live following element", k, k2);
          }
          if (c.contains(k)) fail("wrong_result", "key %d is still contained after erase(iterator)", k);
        }
      }
      break;
    }
    case 7: { // (re)start the long-lived traversal
      if (op & 64) {
        dumpf("  it = begin()\n");
        start_traversal(c.begin(), true);
      } else {
        dumpf("  it = find(%d)\n", k);
        It f = c.find(k);
        if ((f != c.end()) != (mi != model.end())) fail("wrong_result", "find(%d) found=%d but the key was %s", k, (int)(f != c.end()), mi == model.end() ? "absent" : "present");
        start_traversal(std::move(f), false);
      }
      on_yield();
      break;
    }
    case 8:
    case 9: {
      if (!live) break;
      if (op & 64) {
        It copy = it; // copies are iterators in their own right
        ++it;
        if (copy == c.end()) fail("wrong_result", "a copy of a dereferenceable iterator compares equal to end()");
        (void)A::key_of(copy);
      } else
        ++it;
      dumpf("  ++it -> %s\n", it == c.end() ? "end" : std::to_string(A::key_of(it)).c_str());
      on_yield();
      break;
    }
    case 10: { // erase through the long-lived iterator
      if (!live) break;
      int cur = A::key_of(it);
      bool present = model.count(cur) != 0;
      dumpf("  it = erase(it) at key %d\n", cur);
      it = c.erase(std::move(it));
      if (present) {
        // the referenced element is the live one unless it was erased and re-inserted since it was yielded
        if (!c.contains(cur)) {
          model.erase(cur);
          removals++;
          stable.erase(cur);
          updated_during = true;
        } else if (stable.count(cur))
          fail("wrong_result", "erase(iterator) did not remove key %d", cur);
      }
      label(L_HM_ERASE_IT);
      on_yield();
      break;
    }
    case 11: { // full scan through fresh iterators (no updates in between): exact
      dumpf("  scan\n");
      std::set<int> seen;
      unsigned steps = 0;
      for (It s = c.begin(); s != c.end(); ++s) {
        int k2 = A::key_of(s);
        auto f = model.find(k2);
        if (f == model.end() || (A::is_map && f->second != A::val_of(s)) || !seen.insert(k2).second) fail("scan_mismatch", "scan yields key %d which is absent, stale or repeated", k2);
        if (++steps > 100) fail("traversal_does_not_end", "scan took more than 100 steps");
      }
      if (seen.size() != model.size()) fail("scan_mismatch", "scan yields %zu elements, the container holds %zu", seen.size(), model.size());
      break;
    }
    }
  }
  {
    std::set<int> seen;
    unsigned steps = 0;
    for (It s = c.begin(); s != c.end(); ++s) {
      int k2 = A::key_of(s);
      auto f = model.find(k2);
      if (f == model.end() || (A::is_map && f->second != A::val_of(s)) || !seen.insert(k2).second) fail("scan_mismatch", "final scan yields key %d which is absent, stale or repeated", k2);
      if (++steps > 100) fail("traversal_does_not_end", "final scan took more than 100 steps");
    }
    if (seen.size() != model.size()) fail("scan_mismatch", "final scan yields %zu elements, the container holds %zu", seen.size(), model.size());
  }
  it = c.end();
  delete cp;
  S.ops[g_fam] += nops;
  if (inserts >= 3 && removals >= 1) S.nontrivial[g_fam]++;
}

// ====================================================================================================================
// chase_work_stealing_deque                                                                                         C12
// ====================================================================================================================
int g_items[4096];
template <class Q, unsigned CAP, bool GROW>
void run_deque(In& in) {
  auto* qp = new Q();
  Q& q = *qp;
  std::deque<int*> model;
  unsigned next = 0, nops = 0;
  uint64_t pushed_total = 0, taken_total = 0;
  unsigned capacity = CAP;
  bool grew_off = false;
  dumpf("deque capacity %u %s\n", CAP, GROW ? "growing" : "fixed");
  auto push = [&]() {
    if (next >= 4096) return;
    int* item = &g_items[next];
    bool ok = q.try_push(item);
    if (GROW) {
      if (!ok) fail("wrong_result", "try_push failed on a growing deque holding %zu items", model.size());
      if (model.size() >= capacity) {
        label(L_DQ_GREW);
        if (taken_total % capacity != 0) grew_off = true, label(L_DQ_GROW_OFF);
        capacity *= 2;
      }
    } else {
      if (ok != (model.size() < CAP)) fail("wrong_result", "try_push returned %d with %zu of %u slots in use", (int)ok, model.size(), CAP);
      if (!ok) label(L_DQ_FULL);
    }
    if (ok) model.push_back(item), next++, pushed_total++;
  };
  auto take = [&](bool steal) {
    int* r = nullptr;
    bool ok = steal ? q.try_steal(r) : q.try_pop(r);
    if (ok != !model.empty()) fail("wrong_result", "%s returned %d with %zu items stored", steal ? "try_steal" : "try_pop", (int)ok, model.size());
    if (!ok) return;
    int* exp = steal ? model.front() : model.back();
    if (r != exp) fail("wrong_element", "%s handed out item %ld, expected item %ld (%zu stored)", steal ? "try_steal" : "try_pop", (long)(r - g_items), (long)(exp - g_items), model.size());
    if (steal)
      model.pop_front(), taken_total++;
    else
      model.pop_back();
  };
  while (!in.done() && nops < 600) {
    uint8_t op = in.u8();
    nops++;
    switch (op % 8) {
    case 0:
    case 1:
    case 2: dumpf("  push\n"); push(); break;
    case 3:
    case 4: dumpf("  pop\n"); take(false); break;
    case 5: dumpf("  steal\n"); take(true); break;
    case 6: { // traffic that advances top/bottom without changing the size
      unsigned n = 1 + (op >> 3);
      dumpf("  %u x (push, steal)\n", n);
      for (unsigned i = 0; i < n; ++i) push(), take(true);
      break;
    }
    case 7: {
      unsigned n = 1 + (op >> 3) % 20;
      dumpf("  %u x push\n", n);
      for (unsigned i = 0; i < n; ++i) push();
      break;
    }
    }
  }
  bool steal = false;
  while (!model.empty()) take(steal), steal = !steal;
  take(true), take(false);
  delete qp;
  S.ops[g_fam] += nops;
  if (GROW ? grew_off : (pushed_total > 2 * CAP)) S.nontrivial[g_fam]++;
}

// ====================================================================================================================
// queues                                                                                                     C04 - C07
// ====================================================================================================================
enum QKind { QK_FIFO, QK_NIKB, QK_VYU, QK_KK, QK_KB };
template <class Q, QKind K>
void run_queue(In& in) {
  unsigned cap = 0, k = 1, segs = 1, effcap = 0;
  Q* q;
  g_random_state = in.u8() * 0x9E3779B97F4A7C15ull + 1;
  if constexpr (K == QK_NIKB) {
    cap = 1 + in.below(9);
    q = new Q(cap);
    effcap = 1;
    while (effcap < cap) effcap <<= 1; // documented: rounded up to a power of two
  } else if constexpr (K == QK_VYU) {
    cap = 2u << in.below(3);
    q = new Q(cap);
    effcap = cap;
  } else if constexpr (K == QK_KK) {
    k = 1 + in.below(6);
    q = new Q(k);
  } else if constexpr (K == QK_KB) {
    k = 1 + in.below(5);
    segs = 1 + in.below(5);
    q = new Q(k, segs);
  } else
    q = new Q();
  dumpf("queue cap=%u k=%u segments=%u\n", cap, k, segs);
  std::deque<int> model;
  std::vector<UP> popped;
  int next_id = 1;
  unsigned nops = 0, pushes = 0, pops = 0;
  auto push = [&](unsigned variant) {
    int id = next_id++;
    UP e(new Tracked(id));
    bool ok = true, weak = false;
    if constexpr (K == QK_FIFO || K == QK_KK)
      q->push(std::move(e));
    else if constexpr (K == QK_NIKB || K == QK_KB)
      ok = q->try_push(std::move(e));
    else {
      if (variant % 3 == 0)
        ok = q->try_push_strong(std::move(e));
      else if (variant % 3 == 1)
        ok = q->try_push(std::move(e));
      else
        ok = q->try_push_weak(std::move(e)), weak = true;
      if (!ok && (!e || e->id != id)) fail("element_consumed", "a failed try_push (forwarding reference) consumed or changed the element");
    }
    dumpf("  push(%d) -> %d\n", id, (int)ok);
    size_t n = model.size();
    if (ok) {
      if ((K == QK_NIKB || K == QK_VYU) && n >= effcap) fail("wrong_result", "push succeeded with %zu of %u slots in use", n, effcap);
      if (K == QK_KB && n >= (size_t)k * segs) fail("wrong_result", "push succeeded with %zu values stored in %u segments of %u", n, segs, k);
      model.push_back(id);
      pushes++;
      if ((K == QK_NIKB || K == QK_VYU) && pushes > 2 * effcap) label(L_Q_WRAP);
      if (K == QK_KB && pushes > 2 * k * segs) label(L_Q_WRAP);
    } else {
      label(L_Q_FULL);
      if (K == QK_NIKB && n < cap) fail("unjustified_full", "try_push failed with %zu of %u slots in use and nothing in progress", n, cap);
      if (K == QK_VYU && !weak && n < effcap) fail("unjustified_full", "strong try_push failed with %zu of %u slots in use", n, effcap);
      // (a weak push may fail spuriously by the text of C05: no verdict rule for it)
      if (K == QK_KB && n < (size_t)(segs - 1) * k + 1) fail("unjustified_full", "try_push failed with %zu values stored (k=%u, %u segments)", n, k, segs);
    }
  };
  auto pop = [&](unsigned variant) {
    UP r;
    bool ok, weak_pop = false;
    if constexpr (K == QK_VYU) {
      if (variant % 3 == 0)
        ok = q->try_pop_strong(r);
      else if (variant % 3 == 1)
        ok = q->try_pop(r);
      else
        ok = q->try_pop_weak(r), weak_pop = true;
    } else if constexpr (K == QK_FIFO) {
      ok = q->try_pop(r);
    } else {
      if (variant % 2 == 0)
        ok = q->try_pop(r);
      else {
        auto o = q->pop();
        ok = o.has_value();
        if (ok) r = std::move(*o);
        label(L_Q_POPOPT);
      }
    }
    dumpf("  pop -> %d (%d)\n", (int)ok, ok && r ? r->id : -1);
    if (!ok) {
      label(L_Q_EMPTY);
      if (!model.empty() && !weak_pop) fail("unjustified_empty", "pop reported empty with %zu values stored and nothing in progress", model.size());
      return; // (a weak pop may fail spuriously by the text of C05)
    }
    if (!r) fail("invented_element", "pop succeeded but handed out no element");
    if (r->canary != 0xC0FFEE) fail("use_after_destroy", "pop handed out a destroyed element");
    size_t window = (K == QK_KK || K == QK_KB) ? k : 1;
    size_t pos = 0;
    while (pos < model.size() && model[pos] != r->id) pos++;
    if (pos == model.size()) fail("duplicated_or_invented", "pop handed out element %d which is not stored (popped before or never pushed)", r->id);
    if (pos >= window) fail(window == 1 ? "fifo_order" : "kfifo_order_exceeded", "pop handed out element %d although %zu older values are stored (allowed: %zu)", r->id, pos, window - 1);
    if (pos > 0) label(L_KFIFO_OOO);
    model.erase(model.begin() + (long)pos);
    popped.push_back(std::move(r));
    pops++;
  };
  while (!in.done() && nops < 500) {
    uint8_t op = in.u8();
    nops++;
    switch (op % 8) {
    case 0:
    case 1:
    case 2: push(op >> 3); break;
    case 3:
    case 4:
    case 5: pop(op >> 3); break;
    case 6: {
      unsigned n = 1 + (op >> 3) % 24;
      for (unsigned i = 0; i < n; ++i) push(i);
      break;
    }
    case 7: {
      unsigned n = 1 + (op >> 3) % 24;
      for (unsigned i = 0; i < n; ++i) pop(i);
      break;
    }
    }
  }
  bool drain = in.p[in.n - 1] & 1;
  if (drain)
    while (!model.empty()) pop(0);
  else if (!model.empty())
    label(L_Q_DESTROY_NONEMPTY);
  delete q; // destroys every element still stored, exactly once
  popped.clear();
  if (g_live != 0) fail(g_live > 0 ? "leaked_element" : "double_destroy", "%ld elements alive after the queue and all popped elements were destroyed", g_live);
  S.ops[g_fam] += nops;
  if (pushes >= 3 && pops >= 1) S.nontrivial[g_fam]++;
}

// ====================================================================================================================
// seqlock                                                                                                           C14
// ====================================================================================================================
template <size_t N, class Unit>
struct Blob {
  Unit u[N / sizeof(Unit)];
};
template <class T, unsigned SLOTS>
void run_seqlock_t(In& in) {
  static_assert(std::is_trivially_copyable_v<T>);
  struct Frame {
    unsigned char before[32];
    seqlock<T, policy::slots<SLOTS>> sl;
    unsigned char after[32];
  };
  auto* fr = new Frame();
  memset(fr->before, 0xA5, 32);
  memset(fr->after, 0x5A, 32);
  T cur{};
  unsigned char fill = in.u8();
  memset(&cur, fill, sizeof(T));
  new (&fr->sl) seqlock<T, policy::slots<SLOTS>>(cur);
  unsigned nops = 0;
  dumpf("seqlock sizeof(T)=%zu alignof(T)=%zu slots=%u\n", sizeof(T), alignof(T), SLOTS);
  auto check = [&](const char* when) {
    T got = fr->sl.load();
    if (memcmp(&got, &cur, sizeof(T)) != 0) {
      size_t i = 0;
      while (((unsigned char*)&got)[i] == ((unsigned char*)&cur)[i]) i++;
      fail("torn_or_truncated", "load after %s differs from the last stored value at byte %zu of %zu", when, i, sizeof(T));
    }
    for (int i = 0; i < 32; ++i)
      if (fr->before[i] != 0xA5 || fr->after[i] != 0x5A) fail("out_of_bounds_write", "memory next to the seqlock was overwritten after %s", when);
  };
  check("construction");
  while (!in.done() && nops < 200) {
    uint8_t op = in.u8();
    nops++;
    if (op % 3 == 0) {
      unsigned char* b = (unsigned char*)&cur;
      for (size_t i = 0; i < sizeof(T); ++i) b[i] = (unsigned char)(in.u8() + i * 31);
      fr->sl.store(cur);
      dumpf("  store\n");
      check("store");
    } else if (op % 3 == 1) {
      uint8_t d = in.u8();
      fr->sl.update([&](T& v) {
        if (memcmp(&v, &cur, sizeof(T)) != 0) fail("torn_or_truncated", "update functor received a value that differs from the last stored one");
        unsigned char* b = (unsigned char*)&v;
        for (size_t i = 0; i < sizeof(T); ++i) b[i] = (unsigned char)(b[i] + d + i);
      });
      unsigned char* b = (unsigned char*)&cur;
      for (size_t i = 0; i < sizeof(T); ++i) b[i] = (unsigned char)(b[i] + d + i);
      dumpf("  update\n");
      label(L_SL_UPDATE);
      check("update");
    } else {
      dumpf("  load\n");
      check("load");
    }
  }
  delete fr;
  S.ops[g_fam] += nops;
  if (sizeof(T) % 8 != 0) label(L_SL_ODD);
  if (nops >= 3) S.nontrivial[g_fam]++;
}
void run_seqlock(In& in) {
  unsigned t = in.below(15);
  using B12 = Blob<12, uint32_t>;
  using B20 = Blob<20, uint32_t>;
  using B24 = Blob<24, uint64_t>;
  using B10 = Blob<10, uint16_t>;
  using B9 = Blob<9, unsigned char>;
  switch (t) {
  case 0: return run_seqlock_t<B12, 1>(in);
  case 1: return run_seqlock_t<B12, 2>(in);
  case 2: return run_seqlock_t<B12, 3>(in);
  case 3: return run_seqlock_t<B20, 1>(in);
  case 4: return run_seqlock_t<B20, 2>(in);
  case 5: return run_seqlock_t<B20, 4>(in);
  case 6: return run_seqlock_t<B24, 1>(in);
  case 7: return run_seqlock_t<B24, 3>(in);
  case 8: return run_seqlock_t<B24, 8>(in);
  case 9: return run_seqlock_t<B10, 1>(in);
  case 10: return run_seqlock_t<B10, 2>(in);
  case 11: return run_seqlock_t<B10, 8>(in);
  case 12: return run_seqlock_t<B9, 1>(in);
  case 13: return run_seqlock_t<B9, 3>(in);
  default: return run_seqlock_t<B9, 4>(in);
  }
}

// ---- dispatch -----------------------------------------------------------------------------------------------------
int g_allowed[NFAM], g_nallowed = 0;
void init_once() {
  static bool done = false;
  if (done) return;
  done = true;
  g_dump = getenv("VFUZZ_DUMP") != nullptr;
  const char* fams = getenv("VFUZZ_FAMILIES");
  for (int i = 0; i < NFAM; ++i) {
    bool on = !fams || !*fams;
    if (!on) {
      std::string s = std::string(",") + fams + ",";
      on = s.find(std::string(",") + fam_name[i] + ",") != std::string::npos;
    }
    if (on) g_allowed[g_nallowed++] = i;
  }
  if (!g_nallowed) {
    fprintf(stderr, "VFUZZ_FAMILIES names no known family\n");
    exit(3);
  }
  atexit(write_stats);
}

void run_case(const uint8_t* data, size_t size) {
  if (size < 2) return;
  In in{data, size};
  g_fam = g_allowed[in.u8() % g_nallowed];
  g_live = 0;
  S.cases[g_fam]++;
  dumpf("family %s\n", fam_name[g_fam]);
  switch (g_fam) {
  case VYU_II: run_vyukov<vyukov_hash_map<int, int, policy::reclaimer<EBR0>>, int>(in, false); break;
  case VYU_SS: run_vyukov<vyukov_hash_map<std::string, std::string, policy::reclaimer<HPd>, policy::hash<SHash>>, std::string>(in, false); break;
  case VYU_SC: run_vyukov<vyukov_hash_map<std::string, std::string, policy::reclaimer<EBR0>, policy::hash<SHashConst>>, std::string>(in, true); break;
  case HM_MAP: run_hm<HMMap<false>>(in); break;
  case HM_MAP_MEMO: run_hm<HMMap<true>>(in); break;
  case HM_SET: run_hm<HMSet>(in); break;
  case DEQUE_GROW:
    if (in.below(2))
      run_deque<chase_work_stealing_deque<int, policy::capacity<2>>, 2, true>(in);
    else
      run_deque<chase_work_stealing_deque<int, policy::capacity<8>>, 8, true>(in);
    break;
  case DEQUE_FIXED: run_deque<chase_work_stealing_deque<int, policy::capacity<4>, policy::container<detail::fixed_size_circular_array<int, 4>>>, 4, false>(in); break;
  case Q_MS: run_queue<michael_scott_queue<UP, policy::reclaimer<EBR0>>, QK_FIFO>(in); break;
  case Q_RAM: run_queue<ramalhete_queue<UP, policy::reclaimer<HPd>, policy::entries_per_node<2>>, QK_FIFO>(in); break;
  case Q_NIK: run_queue<nikolaev_queue<UP, policy::reclaimer<EBR0>, policy::entries_per_node<2>>, QK_FIFO>(in); break;
  case Q_NIKB: run_queue<nikolaev_bounded_queue<UP>, QK_NIKB>(in); break;
  case Q_VYU: run_queue<vyukov_bounded_queue<UP>, QK_VYU>(in); break;
  case Q_KK: run_queue<kirsch_kfifo_queue<UP, policy::reclaimer<STAMP>>, QK_KK>(in); break;
  case Q_KB: run_queue<kirsch_bounded_kfifo_queue<UP>, QK_KB>(in); break;
  case SEQLOCK: run_seqlock(in); break;
  }
}
} // namespace

extern "C" int LLVMFuzzerTestOneInput(const uint8_t* data, size_t size) {
  init_once();
  run_case(data, size);
  return 0;
}

#ifdef VFUZZ_STANDALONE // plain replay driver (no libFuzzer): fuzzseq FILE...
int main(int argc, char** argv) {
  for (int i = 1; i < argc; ++i) {
    FILE* f = fopen(argv[i], "rb");
    if (!f) return 2;
    std::vector<uint8_t> buf(1 << 16);
    size_t n = fread(buf.data(), 1, buf.size(), f);
    fclose(f);
    LLVMFuzzerTestOneInput(buf.data(), n);
  }
  return 0;
}
#endif
