// mhist — Harris–Michael list based set and hash map (C08 linearizability, C09 iterators under updates;
// weak tier of C03; solo tier of C16).
#include "prelude_begin.hpp"

#include <xenium/harris_michael_hash_map.hpp>
#include <xenium/harris_michael_list_based_set.hpp>
#include <xenium/reclamation/generic_epoch_based.hpp>
#include <xenium/reclamation/hazard_eras.hpp>
#include <xenium/reclamation/hazard_pointer.hpp>
#include <xenium/reclamation/lock_free_ref_count.hpp>
#include <xenium/reclamation/quiescent_state_based.hpp>
#include <xenium/reclamation/stamp_it.hpp>

#include "prelude_end.hpp"

#include "hcommon.hpp"
#include "lin.hpp"

using namespace xenium;
namespace rec = xenium::reclamation;

namespace {

constexpr int MAXK = 8; // key universe
constexpr int MAXT = 4;
constexpr int MAXOPS = 6;

enum OpK : uint8_t {
  O_NOP = 0,
  O_INSERT,   // variant selects the API; result: inserted?, observed id
  O_ERASE,    // erase(key) -> bool
  O_FIND,     // find(key) -> found?, id
  O_CONTAINS, // contains(key) -> bool
  O_ERASE_IT, // erase(iterator obtained by find) ; recorded as O_FIND + O_ERASE_IT
  O_YIELD,    // an element yielded by a traversal: it was present at some instant between traversal begin and the yield
  O_SCAN,     // final full iteration at quiescence: equals the whole state
  O_NK
};

struct MOp : lin::OpBase {
  uint8_t kind = 0, variant = 0, key = 0;
  bool ok = false;       // inserted / erased / found
  bool has_obs = false;  // obs is meaningful
  int obs = 0;           // observed id (value identity)
  int id = 0;            // id this operation tried to insert
  uint8_t scan_n = 0;
  uint8_t scan_key[MAXK];
  int scan_id[MAXK];
};

struct MSpec {
  using Op = MOp;
  struct State {
    int v[MAXK]; // id+1 of the element stored for the key, 0 = absent
  };
  uint64_t hash(const State& s) const {
    uint64_t h = 7;
    for (int i = 0; i < MAXK; ++i) h = vh::hmix(h, (uint64_t)s.v[i]);
    return h;
  }
  bool equal(const State& a, const State& b) const { return memcmp(a.v, b.v, sizeof a.v) == 0; }
  // erase(iterator) of an element with id 0 (default value inserted by operator[]): ids 0 are not unique, the
  // iterator may refer to an earlier, already removed incarnation -> the operation may also be a no-op
  // Weak executions (C03): verdicts that change nothing (absent, already present, a value seen by a lookup) need not
  // fit one total order - a C++11-consistent execution may contain a cycle of happens-before and "did not see"
  // edges between operations that do not synchronize. Successful insertions/removals, the identity of observed
  // values and the final iteration stay exact; "absent although an insertion that nothing can undo happens-before"
  // is checked separately.
  bool weak = false;
  int16_t id_key[256] = {};
  bool valid(const Op& o) const { return o.obs == 0 || (o.obs > 0 && o.obs < 256 && id_key[o.obs] == o.key + 1); }
  int alternatives(const Op& o) const { return (o.kind == O_ERASE_IT && o.obs == 0) || (weak && o.kind == O_INSERT && o.variant == 99) ? 2 : 1; }
  bool apply(State& s, const Op& o, int alt = 0) const {
    int& cur = s.v[o.key];
    switch (o.kind) {
    case O_INSERT:
      if (o.variant == 99) { // operator[]: inserts a default value (id 0) if absent
        if (weak && alt == 1) return valid(o); // it saw an element: nothing changes
        if (cur == 0) {
          if (o.obs != 0) return false;
          cur = 1;
          return true;
        }
        return cur == o.obs + 1;
      }
      if (o.ok) {
        if (cur != 0) return false;
        if (o.has_obs && o.obs != o.id) return false;
        cur = o.id + 1;
        return true;
      }
      if (weak) return !o.has_obs || valid(o);
      if (cur == 0) return false;
      return !o.has_obs || cur == o.obs + 1;
    case O_ERASE:
      if (o.ok) {
        if (cur == 0) return false;
        cur = 0;
        return true;
      }
      return weak || cur == 0;
    case O_FIND:
    case O_YIELD:
      if (weak) return !o.ok || valid(o);
      if (o.ok) return cur == o.obs + 1;
      return cur == 0;
    case O_CONTAINS:
      if (weak) return true;
      return o.ok ? cur != 0 : cur == 0;
    case O_ERASE_IT:
      if (alt == 1) return true;
      if (cur == o.obs + 1) cur = 0; // removes exactly the referenced element if it is still there
      return true;
    case O_SCAN: {
      int cnt = 0;
      for (int k = 0; k < MAXK; ++k)
        if (s.v[k]) cnt++;
      if (cnt != o.scan_n) return false;
      for (int i = 0; i < o.scan_n; ++i)
        if (s.v[o.scan_key[i]] != o.scan_id[i] + 1) return false;
      return true;
    }
    default: return true;
    }
  }
};

// ---- container adapters -------------------------------------------------------------------------------------
struct SetKey {
  int k;
  int id;
};
struct CmpLess {
  bool operator()(const SetKey& a, const SetKey& b) const { return a.k < b.k; }
};
struct CmpGreater {
  bool operator()(const SetKey& a, const SetKey& b) const { return a.k > b.k; }
};

// key with an observable moved-from state: a key object the container has moved from compares and hashes like key 99,
// which is outside the key universe - any use of a moved-from key by the container shows up as a wrong result
struct MKey {
  int v = 99;
  MKey() = default;
  MKey(int x) : v(x) {} // NOLINT: implicit on purpose, the harness passes plain ints
  MKey(const MKey&) = default;
  MKey& operator=(const MKey&) = default;
  MKey(MKey&& o) noexcept : v(o.v) { o.v = 99; }
  MKey& operator=(MKey&& o) noexcept {
    v = o.v;
    o.v = 99;
    return *this;
  }
  explicit operator int() const { return v; }
  friend bool operator==(const MKey& a, const MKey& b) { return a.v == b.v; }
  friend bool operator!=(const MKey& a, const MKey& b) { return a.v != b.v; }
  friend bool operator<(const MKey& a, const MKey& b) { return a.v < b.v; }
  friend bool operator>(const MKey& a, const MKey& b) { return a.v > b.v; }
  friend bool operator<=(const MKey& a, const MKey& b) { return a.v <= b.v; }
  friend bool operator>=(const MKey& a, const MKey& b) { return a.v >= b.v; }
};

template <class C, class Cmp>
struct SetAdapter {
  using Cont = C;
  using It = typename C::iterator;
  static constexpr bool is_map = false;
  static constexpr int insert_variants = 2;
  static int key_of(It& it) { return (*it).k; }
  static int id_of(It& it) { return it->id; }
  static bool ordered_after(int a, int b) { return Cmp()(SetKey{b, 0}, SetKey{a, 0}); } // a comes after b
  static void insert(C& c, int variant, int k, int id, MOp& r) {
    if (variant == 0) {
      r.ok = c.emplace(SetKey{k, id});
    } else {
      auto res = c.emplace_or_get(SetKey{k, id});
      r.ok = res.second;
      r.has_obs = true;
      r.obs = res.first->id;
      if ((*res.first).k != k) vrt::fail("wrong_element", "emplace_or_get(%d) returned an iterator to key %d", k, (*res.first).k);
    }
  }
  static bool erase(C& c, int k) { return c.erase(SetKey{k, 0}); }
  static It find(C& c, int k) { return c.find(SetKey{k, 0}); }
  static bool contains(C& c, int k) { return c.contains(SetKey{k, 0}); }
};

template <class C>
struct MapAdapter {
  using Cont = C;
  using It = typename C::iterator;
  static constexpr bool is_map = true;
  static constexpr int insert_variants = 5;
  static int key_of(It& it) { return (int)(*it).first; }
  static int id_of(It& it) { return it->second; }
  static bool ordered_after(int, int) { return true; }
  static void insert(C& c, int variant, int k, int id, MOp& r) {
    switch (variant) {
    case 0: r.ok = c.emplace(k, id); break;
    case 1: {
      auto res = c.emplace_or_get(k, id);
      r.ok = res.second;
      r.has_obs = true;
      r.obs = res.first->second;
      if ((int)res.first->first != k) vrt::fail("wrong_element", "emplace_or_get(%d) returned an iterator to key %d", k, (int)res.first->first);
      break;
    }
    case 2: {
      auto res = c.get_or_emplace(k, id);
      r.ok = res.second;
      r.has_obs = true;
      r.obs = res.first->second;
      if ((int)res.first->first != k) vrt::fail("wrong_element", "get_or_emplace(%d) returned an iterator to key %d", k, (int)res.first->first);
      break;
    }
    case 3: {
      bool called = false;
      auto res = c.get_or_emplace_lazy(k, [&] {
        called = true;
        return id;
      });
      r.ok = res.second;
      r.has_obs = true;
      r.obs = res.first->second;
      if ((int)res.first->first != k) vrt::fail("wrong_element", "get_or_emplace_lazy(%d) returned an iterator to key %d", k, (int)res.first->first);
      if (res.second && !called) vrt::fail("wrong_element", "get_or_emplace_lazy inserted without calling the factory");
      break;
    }
    default: {
      auto acc = c[k];
      r.variant = 99;
      r.has_obs = true;
      r.obs = *acc;
      r.ok = false;
      break;
    }
    }
  }
  static bool erase(C& c, int k) { return c.erase(k); }
  static It find(C& c, int k) { return c.find(k); }
  static bool contains(C& c, int k) { return c.contains(k); }
};

// reclaimer of a container type and an optional region_guard of it
template <class C>
struct RecOf;
template <class K, class R, class... P>
struct RecOf<harris_michael_list_based_set<K, policy::reclaimer<R>, P...>> {
  using type = R;
};
template <class K, class V, class R, class... P>
struct RecOf<harris_michael_hash_map<K, V, policy::reclaimer<R>, P...>> {
  using type = R;
};
template <class R>
struct RegionScope {
  alignas(typename R::region_guard) unsigned char buf[sizeof(typename R::region_guard)];
  bool on;
  explicit RegionScope(bool enable) : on(enable) {
    if (on) new (buf) typename R::region_guard();
  }
  ~RegionScope() {
    using RG = typename R::region_guard;
    if (on) reinterpret_cast<RG*>(buf)->~RG();
  }
};

template <class A>
struct MHarness {
  using C = typename A::Cont;
  using It = typename A::It;
  struct POp {
    uint8_t kind, variant, key;
  };
  enum TK : uint8_t { T_NOP = 0, T_INC, T_POSTINC, T_COPY, T_ERASE_CUR, T_DEREF };
  C* c = nullptr;
  int U = 4;      // key universe
  int stable_from = 99; // keys >= stable_from are only touched by the prefix (and by the traverser's own erase)
  POp prefix[40];
  int nprefix = 0;
  POp progs[MAXT][MAXOPS];
  int nupd = 2;
  int region_mode = 0;
  bool traverse = false;
  uint8_t tprog[16];
  vh::hvec<MOp> hist[MAXT + 2];
  int next_id = 1;
  bool neighbour_update_between_steps = false;
  uint64_t updates_done = 0; // successful inserts/erases completed by updaters (for the non-triviality rule)

  void exec(const POp& o, vh::hvec<MOp>& h) {
    MOp r;
    r.tid = vrt::self();
    r.kind = o.kind;
    r.variant = o.variant;
    r.key = o.key;
    switch (o.kind) {
    case O_INSERT: {
      r.id = next_id++;
      vrt::op_begin(1);
      vrt::stamp(&r.inv);
      A::insert(*c, o.variant, o.key, r.id, r);
      vrt::stamp(&r.resp);
      vrt::op_end();
      if (r.ok) updates_done++;
      h.push_back(r);
      break;
    }
    case O_ERASE: {
      vrt::op_begin(1);
      vrt::stamp(&r.inv);
      r.ok = A::erase(*c, o.key);
      vrt::stamp(&r.resp);
      vrt::op_end();
      if (r.ok) updates_done++;
      h.push_back(r);
      break;
    }
    case O_CONTAINS: {
      vrt::op_begin(1);
      vrt::stamp(&r.inv);
      r.ok = A::contains(*c, o.key);
      vrt::stamp(&r.resp);
      vrt::op_end();
      h.push_back(r);
      break;
    }
    case O_FIND:
    case O_ERASE_IT: {
      r.kind = O_FIND;
      vrt::op_begin(1);
      vrt::stamp(&r.inv);
      It it = A::find(*c, o.key);
      r.ok = it != c->end();
      if (r.ok) {
        if (A::key_of(it) != o.key) vrt::fail("wrong_element", "find(%d) returned an iterator to key %d", o.key, A::key_of(it));
        r.has_obs = true;
        r.obs = A::id_of(it);
      }
      vrt::stamp(&r.resp);
      vrt::op_end();
      h.push_back(r);
      if (o.kind == O_ERASE_IT && r.ok) {
        MOp e;
        e.tid = r.tid;
        e.kind = O_ERASE_IT;
        e.key = o.key;
        e.obs = r.obs;
        vrt::point();
        vrt::op_begin(1);
        vrt::stamp(&e.inv);
        It nx = c->erase(std::move(it));
        vrt::stamp(&e.resp);
        vrt::op_end();
        if (nx != c->end()) {
          int nk = A::key_of(nx);
          if (nk < 0 || nk >= MAXK) vrt::fail("wrong_element", "erase(iterator) returned an iterator to an invalid key %d", nk);
          // a following element: a later key, or a re-inserted element with the same key (a different node)
          if (!A::is_map && !A::ordered_after(nk, o.key) && !(nk == o.key && A::id_of(nx) != r.obs))
            vrt::fail("erase_iterator_result", "erase(iterator to key %d) returned an iterator to key %d which does not follow it", o.key, nk);
        }
        updates_done++;
        h.push_back(e);
      }
      break;
    }
    default: break;
    }
  }

  // the traversing thread: begin ... ++ ... end with copies, post-increments and erase(iterator)
  struct Yield {
    int key, id;
    vrt::Stamp at;
  };
  vh::hvec<Yield> yields;
  vrt::Stamp trav_begin{};
  bool trav_complete = false;
  bool self_erased[MAXK] = {};

  void note_yield(It& it, vh::hvec<MOp>& h) {
    int k = A::key_of(it), id = A::id_of(it);
    if (k < 0 || k >= MAXK) vrt::fail("wrong_element", "traversal yielded an invalid key %d", k);
    for (auto& y : yields)
      if (y.key == k && y.id == id && id != 0) // id 0 = default value inserted by operator[]: not a unique identity
        vrt::fail("yielded_twice", "traversal yielded element (key %d, id %d) twice", k, id);
    Yield y{k, id, {}};
    vrt::stamp(&y.at);
    yields.push_back(y);
    MOp r;
    r.tid = vrt::self();
    r.kind = O_YIELD;
    r.key = (uint8_t)k;
    r.ok = true;
    r.has_obs = true;
    r.obs = id;
    r.inv = trav_begin;
    r.resp = y.at;
    h.push_back(r);
  }

  void traverser(vh::hvec<MOp>& h) {
    vrt::op_begin(1);
    vrt::stamp(&trav_begin);
    It it = c->begin();
    vrt::op_end();
    int step = 0;
    while (it != c->end()) {
      uint64_t u0 = updates_done;
      note_yield(it, h);
      vrt::point();
      uint8_t a = step < 16 ? tprog[step] : (uint8_t)T_INC;
      step++;
      vrt::op_begin(1);
      switch (a) {
      case T_POSTINC: {
        It old = it++;
        (void)old;
        break;
      }
      case T_COPY: {
        It cp = it;
        ++cp;
        it = cp;
        break;
      }
      case T_ERASE_CUR: {
        int k = A::key_of(it), id = A::id_of(it);
        MOp e;
        e.tid = vrt::self();
        e.kind = O_ERASE_IT;
        e.key = (uint8_t)k;
        e.obs = id;
        vrt::stamp(&e.inv);
        it = c->erase(it);
        vrt::stamp(&e.resp);
        h.push_back(e);
        self_erased[k] = true;
        if (it != c->end() && !A::is_map && !A::ordered_after(A::key_of(it), k) && !(A::key_of(it) == k && A::id_of(it) != id))
          vrt::fail("erase_iterator_result", "erase(iterator to key %d) returned an iterator to key %d which does not follow it", k, A::key_of(it));
        vrt::label("traverser_erased_through_iterator");
        break;
      }
      case T_DEREF: {
        int k1 = A::key_of(it), id1 = A::id_of(it);
        vrt::point();
        int k2 = A::key_of(it), id2 = A::id_of(it);
        if (k1 != k2 || id1 != id2) vrt::fail("wrong_element", "dereferencing the same iterator twice gave different elements");
        ++it;
        break;
      }
      default: ++it; break;
      }
      vrt::op_end();
      if (updates_done != u0) neighbour_update_between_steps = true;
      if (step > 40) vrt::fail("traversal_does_not_end", "a traversal of a container with at most %d keys took more than 40 steps", U);
    }
    trav_complete = true;
  }

  void run() {
    const bool c09 = vh::prop_is("C09");
    const bool seq = vrt::param("sequential", 0) != 0;
    U = 3 + (int)vrt::choose(4);
    nupd = seq ? 0 : 1 + (int)vrt::choose(3);
    traverse = c09 ? true : (seq ? false : vrt::choose(3) == 0);
    stable_from = (c09 || traverse) ? U - (1 + (int)vrt::choose(2)) : U;
    if (stable_from < 1) stable_from = 1;
    // prefix
    int np = seq ? 8 + (int)vrt::choose(32) : (int)vrt::choose(11);
    nprefix = np;
    static const uint32_t wk[O_NK] = {0, 10, 5, 2, 2, 3, 0, 0};
    for (int i = 0; i < np; ++i) {
      POp o;
      o.kind = (uint8_t)vrt::weighted(wk, O_NK);
      o.variant = (uint8_t)vrt::choose(A::insert_variants);
      o.key = (uint8_t)vrt::choose((uint32_t)U);
      prefix[i] = o;
    }
    static const uint32_t wu[O_NK] = {3, 6, 5, 2, 2, 2, 0, 0};
    for (int t = 0; t < MAXT; ++t)
      for (int i = 0; i < MAXOPS; ++i) {
        POp o;
        o.kind = (uint8_t)vrt::weighted(wu, O_NK);
        o.variant = (uint8_t)vrt::choose(A::insert_variants);
        o.key = (uint8_t)vrt::choose((uint32_t)stable_from); // updaters never touch stable keys
        progs[t][i] = o;
      }
    static const uint32_t wt[6] = {0, 8, 2, 2, 3, 2};
    for (int i = 0; i < 16; ++i) tprog[i] = (uint8_t)vrt::weighted(wt, 6);
    // last draw (older replay files read 0 = none): threads that run their whole program inside one region_guard
    region_mode = (int)vrt::choose(4);
    if (region_mode >= 2) vrt::label("threads_inside_region_guard");

    if (vrt::want_desc()) {
      static const char* const kn[O_NK] = {"nop", "insert", "erase", "find", "contains", "find+erase(it)", "yield", "scan"};
      vrt::desc("keys=%d stable keys>=%d updaters=%d traverser=%d%s\n  prefix:", U, stable_from, nupd, (int)traverse,
                region_mode == 2 ? " region_guard=all threads" : region_mode == 3 ? " region_guard=U1" : "");
      for (int i = 0; i < nprefix; ++i) vrt::desc(" %s/%d(%d)", kn[prefix[i].kind], prefix[i].variant, prefix[i].key);
      vrt::desc("\n");
      for (int t = 0; t < nupd; ++t) {
        vrt::desc("  U%d:", t + 1);
        for (int i = 0; i < MAXOPS; ++i)
          if (progs[t][i].kind) vrt::desc(" %s/%d(%d)", kn[progs[t][i].kind], progs[t][i].variant, progs[t][i].key);
        vrt::desc("\n");
      }
      if (traverse) {
        static const char* const tn[6] = {"++", "++", "it++", "copy;++", "erase(it)", "deref;++"};
        vrt::desc("  traverser:");
        for (int i = 0; i < 8; ++i) vrt::desc(" %s", tn[tprog[i]]);
        vrt::desc("\n");
      }
    }
    uint64_t ph = vh::hmix((uint64_t)U, (uint64_t)stable_from * 8 + (uint64_t)nupd);
    for (int i = 0; i < nprefix; ++i) ph = vh::hmix(ph, prefix[i].kind | (prefix[i].variant << 4) | (prefix[i].key << 8));
    for (int t = 0; t < nupd; ++t)
      for (int i = 0; i < MAXOPS; ++i) ph = vh::hmix(ph, progs[t][i].kind | (progs[t][i].variant << 4) | (progs[t][i].key << 8) | (t << 12));
    if (traverse)
      for (int i = 0; i < 8; ++i) ph = vh::hmix(ph, tprog[i]);
    vrt::fp(ph);

    c = new C();
    // stable keys are inserted first, then the generated prefix
    for (int k = stable_from; k < U; ++k) exec(POp{O_INSERT, 0, (uint8_t)k}, hist[MAXT + 1]);
    for (int i = 0; i < nprefix; ++i) exec(prefix[i], hist[MAXT + 1]);
    int stable_id[MAXK];
    for (int k = 0; k < MAXK; ++k) stable_id[k] = -1;
    for (auto& o : hist[MAXT + 1])
      if (o.kind == O_INSERT && o.ok && o.key >= stable_from) stable_id[o.key] = o.id;
    for (auto& o : hist[MAXT + 1])
      if ((o.kind == O_ERASE && o.ok) || o.kind == O_ERASE_IT)
        if (o.key >= stable_from) stable_id[o.key] = -2; // touched by the prefix after insertion: not stable

    vrt::concurrent_phase(true);
    {
      vh::Threads th;
      if (traverse)
        th.start([this] {
          RegionScope<typename RecOf<C>::type> rg(region_mode == 2);
          traverser(hist[MAXT]);
        });
      for (int t = 0; t < nupd; ++t)
        th.start([this, t] {
          RegionScope<typename RecOf<C>::type> rg(region_mode == 2 || (region_mode == 3 && t == 0));
          for (int i = 0; i < MAXOPS; ++i)
            if (progs[t][i].kind) {
              vrt::point();
              exec(progs[t][i], hist[t]);
            }
        });
      th.join_all();
    }
    vrt::concurrent_phase(false);

    // (d) every element that stayed in the container for the whole traversal is yielded by a complete traversal
    if (traverse && trav_complete) {
      for (int k = stable_from; k < U; ++k) {
        if (stable_id[k] < 0 || self_erased[k]) continue;
        bool seen = false;
        for (auto& y : yields)
          if (y.key == k && y.id == stable_id[k]) seen = true;
        if (!seen) {
          bool erased_before = false;
          (void)erased_before;
          vrt::fail("stable_element_skipped", "a complete traversal did not yield element (key %d, id %d) although it was in the container during the whole traversal", k,
                    stable_id[k]);
        }
      }
      vrt::label("complete_traversal");
    }

    // final full iteration at quiescence
    MOp scan;
    scan.tid = vrt::self();
    scan.kind = O_SCAN;
    vrt::stamp(&scan.inv);
    {
      int n = 0;
      bool seenk[MAXK] = {};
      for (It it = c->begin(); it != c->end(); ++it) {
        int k = A::key_of(it);
        if (k < 0 || k >= MAXK || seenk[k]) vrt::fail("final_scan", "final iteration yields key %d twice or an invalid key", k);
        seenk[k] = true;
        if (n >= MAXK) vrt::fail("final_scan", "final iteration yields more elements than keys exist");
        scan.scan_key[n] = (uint8_t)k;
        scan.scan_id[n] = A::id_of(it);
        n++;
      }
      scan.scan_n = (uint8_t)n;
    }
    vrt::stamp(&scan.resp);

    vh::hvec<MOp> all;
    for (int t = 0; t < MAXT + 2; ++t)
      for (auto& o : hist[t]) all.push_back(o);
    all.push_back(scan);
    MSpec spec;
    spec.weak = vrt::weak_mode();
    for (auto& o : all)
      if (o.kind == O_INSERT && o.id > 0 && o.id < 256) spec.id_key[o.id] = (int16_t)(o.key + 1);
    MSpec::State init{};
    lin::Checker<MSpec> chk(spec, all);
    if (spec.weak) {
      // an "absent" verdict for key k is wrong if some successful insertion of k happens-before it and every successful
      // removal of k (erase(iterator) included) happens-before that insertion
      for (size_t x = 0; x < all.size(); ++x) {
        const MOp& X = all[x];
        bool absent = (X.kind == O_FIND || X.kind == O_ERASE || X.kind == O_CONTAINS) && !X.ok;
        if (!absent) continue;
        for (size_t i = 0; i < all.size(); ++i) {
          const MOp& I = all[i];
          if (i == x || I.kind != O_INSERT || !I.ok || I.variant == 99 || I.key != X.key || !(chk.pred[x] & (1ull << i))) continue;
          bool removable = false;
          for (size_t e = 0; e < all.size() && !removable; ++e) {
            const MOp& E = all[e];
            bool removal = (E.kind == O_ERASE && E.ok) || E.kind == O_ERASE_IT;
            if (removal && E.key == X.key && !(chk.pred[i] & (1ull << e))) removable = true;
          }
          if (!removable)
            vrt::fail("absent_after_insert_happened_before", "an operation on key %d reported 'absent' although the insertion with id %d happens-before it and no removal can follow that insertion",
                      (int)X.key, I.id);
        }
      }
    }
    bool same_key_conflict = false;
    for (size_t i = 0; i < all.size(); ++i)
      for (size_t j = 0; j < all.size(); ++j)
        if (i != j && all[i].key == all[j].key && all[i].tid != all[j].tid && all[i].kind != O_YIELD && all[j].kind != O_YIELD &&
            ((all[i].kind == O_INSERT && all[i].ok) || (all[i].kind == O_ERASE && all[i].ok) || all[i].kind == O_ERASE_IT) && !(chk.pred[i] & (1ull << j)) &&
            !(chk.pred[j] & (1ull << i)))
          same_key_conflict = true;
    if (!chk.run(init)) {
      static const char* const kn[O_NK] = {"nop", "insert", "erase", "find", "contains", "erase(it)", "yield", "scan"};
      vrt::desc("history (not linearizable):\n");
      for (auto& o : all) {
        vrt::desc("  t%d %s/%d(key %d) -> %s obs=%d id=%d [%lu,%lu]", o.tid, kn[o.kind], o.variant, o.key, o.ok ? "true" : "false", o.has_obs ? o.obs : -1, o.id,
                  (unsigned long)o.inv.step, (unsigned long)o.resp.step);
        if (o.kind == O_SCAN)
          for (int i = 0; i < o.scan_n; ++i) vrt::desc(" (%d,%d)", o.scan_key[i], o.scan_id[i]);
        vrt::desc("\n");
      }
      vrt::fail("not_linearizable", "history of %zu operations (incl. %zu traversal yields and the final iteration) has no linearization w.r.t. the %s specification (longest consistent prefix: %zu)",
                all.size(), yields.size(), A::is_map ? "map" : "set", chk.deepest_order.size());
    }
    if (chk.capped) vrt::label("lin_search_capped");
    uint64_t hh = 0;
    for (auto& o : all) hh = vh::hmix(hh, (uint64_t)o.kind + 16 * o.key + 256 * (uint64_t)o.ok + 512 * (uint64_t)(o.obs & 0xff));
    vrt::fp(hh);
    if (same_key_conflict) vrt::label("overlapping_updates_on_same_key");
    if (neighbour_update_between_steps) vrt::label("update_completed_between_iterator_steps");
    delete c;
    if (c09) {
      if (neighbour_update_between_steps) vrt::nontrivial();
    } else if (seq) {
      if (all.size() >= 12) vrt::nontrivial();
    } else if (same_key_conflict)
      vrt::nontrivial();
  }
};

template <class A>
void run_m() {
  vrt::TagScope ts(vrt::TAG_HARNESS);
  auto* h = new MHarness<A>();
  vrt::set_alloc_tag(vrt::TAG_DEFAULT);
  h->run();
}

// ---- menus ---------------------------------------------------------------------------------------------------
using HPd = rec::hazard_pointer<>::with<policy::allocation_strategy<rec::hp_allocation::dynamic_strategy<3, 0, 0>>>;
using HEd = rec::hazard_eras<>::with<policy::allocation_strategy<rec::he_allocation::dynamic_strategy<3, 0, 0>>>;
using HPs = rec::hazard_pointer<>::with<policy::allocation_strategy<rec::hp_allocation::static_strategy<12, 0, 0>>>;
using EBR0 = rec::generic_epoch_based<>::with<policy::scan_frequency<0>, policy::scan<rec::scan::all_threads>, policy::abandon<rec::abandon::always>,
                                              policy::region_extension<rec::region_extension::none>>;
using NEBR1 = rec::generic_epoch_based<>::with<policy::scan_frequency<1>, policy::scan<rec::scan::one_thread>, policy::abandon<rec::abandon::never>,
                                               policy::region_extension<rec::region_extension::eager>>;
using QSBR = rec::quiescent_state_based;
using STAMP = rec::stamp_it;
using LFRC = rec::lock_free_ref_count<>::with<policy::thread_local_free_list_size<2>>;

template <class R, class Cmp>
using SETA = SetAdapter<harris_michael_list_based_set<SetKey, policy::reclaimer<R>, policy::compare<Cmp>>, Cmp>;

struct HashId {
  std::size_t operator()(int k) const { return (std::size_t)k; }
};
struct HashConst {
  std::size_t operator()(int) const { return 7; }
};
struct Hash2 {
  std::size_t operator()(int k) const { return (std::size_t)(k & 1) * 5 + 1; }
};
struct HashRev { // hash order opposite to key order, collisions in pairs
  std::size_t operator()(int k) const { return (std::size_t)(20 - k / 2); }
};
struct BucketRev {
  std::size_t operator()(std::size_t h, std::size_t n) const { return (n - 1) - (h % n); }
};
template <class R, class H, std::size_t B, bool MEMO>
using MAPA = MapAdapter<harris_michael_hash_map<int, int, policy::reclaimer<R>, policy::hash<H>, policy::buckets<B>, policy::memoize_hash<MEMO>>>;
template <class R, class H, std::size_t B, bool MEMO>
using MAPB = MapAdapter<
  harris_michael_hash_map<int, int, policy::reclaimer<R>, policy::hash<H>, policy::buckets<B>, policy::memoize_hash<MEMO>, policy::map_to_bucket<BucketRev>>>;

template <class H>
struct KH {
  std::size_t operator()(const MKey& k) const { return H()(k.v); }
};
template <class R, class H, std::size_t B, bool MEMO>
using MAPK = MapAdapter<harris_michael_hash_map<MKey, int, policy::reclaimer<R>, policy::hash<KH<H>>, policy::buckets<B>, policy::memoize_hash<MEMO>>>;

#define MC(name, A, tags) vrt::Cfg{name, &run_m<A>, tags}
#define COMMA ,

const vrt::Cfg cfgs[] = {
#if MHIST_GROUP == 0
  MC("set_less_hp", SETA<HPd COMMA CmpLess>, "set,quick"),
  MC("set_greater_ebr", SETA<EBR0 COMMA CmpGreater>, "set,quick"),
  MC("set_less_stamp", SETA<STAMP COMMA CmpLess>, "set,quick"),
  MC("set_less_he", SETA<HEd COMMA CmpLess>, "set,quick"),
  MC("set_greater_qsbr", SETA<QSBR COMMA CmpGreater>, "set"),
  MC("set_less_lfrc", SETA<LFRC COMMA CmpLess>, "set"),
  MC("set_less_nebr", SETA<NEBR1 COMMA CmpLess>, "set"),
  MC("set_less_hps12", SETA<HPs COMMA CmpLess>, "set"),
#elif MHIST_GROUP == 1
  MC("map_b1_id_memo_hp", MAPA<HPd COMMA HashId COMMA 1 COMMA true>, "map,quick"),
  MC("map_b2_const_nomemo_ebr", MAPA<EBR0 COMMA HashConst COMMA 2 COMMA false>, "map,quick"),
  MC("map_b4_h2_memo_stamp", MAPA<STAMP COMMA Hash2 COMMA 4 COMMA true>, "map,quick"),
  MC("map_b1_rev_memo_he", MAPA<HEd COMMA HashRev COMMA 1 COMMA true>, "map,quick"),
  MC("map_b2_rev_nomemo_qsbr", MAPA<QSBR COMMA HashRev COMMA 2 COMMA false>, "map,quick"),
  MC("mapk_b1_id_memo_hp", MAPK<HPd COMMA HashId COMMA 1 COMMA true>, "map,quick,movekey"),
  MC("mapk_b2_rev_nomemo_ebr", MAPK<EBR0 COMMA HashRev COMMA 2 COMMA false>, "map,quick,movekey"),
#elif MHIST_GROUP == 2
  MC("map_b4_id_nomemo_revbucket_hp", MAPB<HPd COMMA HashId COMMA 4 COMMA false>, "map,quick"),
  MC("map_b1_h2_memo_lfrc", MAPA<LFRC COMMA Hash2 COMMA 1 COMMA true>, "map"),
  MC("map_b2_id_memo_nebr", MAPA<NEBR1 COMMA HashId COMMA 2 COMMA true>, "map"),
  MC("map_b1_const_memo_ebr", MAPA<EBR0 COMMA HashConst COMMA 1 COMMA true>, "map,quick"),
  MC("map_b4_rev_memo_revbucket_stamp", MAPB<STAMP COMMA HashRev COMMA 4 COMMA true>, "map"),
  MC("mapk_b1_const_nomemo_stamp", MAPK<STAMP COMMA HashConst COMMA 1 COMMA false>, "map,quick,movekey"),
  MC("mapk_b2_h2_memo_he", MAPK<HEd COMMA Hash2 COMMA 2 COMMA true>, "map,movekey"),
#else
  #error "MHIST_GROUP"
#endif
};

#define STR2(x) #x
#define STR(x) STR2(x)
const vrt::Harness harness{"mhist" STR(MHIST_GROUP), cfgs, (int)(sizeof cfgs / sizeof cfgs[0])};
} // namespace

extern "C" const vrt::Harness* vrt_harness() {
  return &harness;
}
