// lrhist — left_right (C13): readers never run on the instance a writer is modifying, every update is applied
// exactly once to each instance in the same order, reads are linearizable with updates.
#include "prelude_begin.hpp"

#include <xenium/left_right.hpp>

#include "prelude_end.hpp"

#include "hcommon.hpp"
#include "lin.hpp"

using namespace xenium;

namespace {

constexpr int MAXU = 24;
constexpr int MAXT = 5;
constexpr int MAXOPS = 6;

struct Pair {
  int a = 0, b = 0;
  int n = 0;
  int init = 0; // marker of the initial content handed to the constructor
  int log[MAXU] = {};
  Pair() = default;
  Pair(const Pair&) = default;
  Pair& operator=(const Pair&) = default;
  // observable moved-from state (like a container that is empty after it was moved from)
  Pair(Pair&& o) noexcept : a(o.a), b(o.b), n(o.n), init(o.init) {
    memcpy(log, o.log, sizeof log);
    o.a = o.b = -2;
    o.init = -1;
    o.n = 0;
  }
  Pair& operator=(Pair&& o) noexcept {
    if (this != &o) {
      a = o.a, b = o.b, n = o.n, init = o.init;
      memcpy(log, o.log, sizeof log);
      o.a = o.b = -2;
      o.init = -1;
      o.n = 0;
    }
    return *this;
  }
};

struct Flags { // harness-side view of who is inside which instance (static storage: never race-checked itself)
  const Pair* inst[2] = {nullptr, nullptr};
  int writer_in[2] = {0, 0};
  int readers_in[2] = {0, 0};
  int applied[MAXU][2] = {};
  bool reader_during_update = false;
  int active_updates = 0;
  int idx(const Pair* p) {
    if (inst[0] == p || inst[0] == nullptr) {
      inst[0] = p;
      return 0;
    }
    if (inst[1] == p || inst[1] == nullptr) {
      inst[1] = p;
      return 1;
    }
    vrt::fail("unknown_instance", "a functor was called with a third instance %p", (const void*)p);
  }
} F;

enum { L_NOP = 0, L_UPDATE, L_READ };

struct LOp : lin::OpBase {
  uint8_t kind = 0;
  int id = 0; // update id, or value observed by a read
};
struct LSpec {
  using Op = LOp;
  struct State {
    int v = 0;
  };
  uint64_t hash(const State& s) const { return (uint64_t)s.v * 31 + 1; }
  bool equal(const State& a, const State& b) const { return a.v == b.v; }
  int alternatives(const Op&) const { return 1; }
  bool apply(State& s, const Op& o, int = 0) const {
    if (o.kind == L_UPDATE) {
      s.v = o.id;
      return true;
    }
    return s.v == o.id;
  }
};

struct LRHarness {
  left_right<Pair>* lr = nullptr;
  uint8_t progs[MAXT][MAXOPS];
  int nwriters = 1, nreaders = 1;
  vh::hvec<LOp> hist[MAXT];
  int next_id = 1;
  int ctor_mode = 0, expect_init = 0, initial_value = 0;

  void do_update(vh::hvec<LOp>& h) {
    if (next_id >= MAXU) return;
    int id = next_id++;
    LOp r;
    r.tid = vrt::self();
    r.kind = L_UPDATE;
    r.id = id;
    vrt::op_begin(0);
    vrt::stamp(&r.inv);
    F.active_updates++;
    auto body = [](Pair& p, int id) {
      int i = F.idx(&p);
      if (id <= 0) vrt::fail("update_functor_consumed", "the update functor was invoked as an rvalue before its last use: its payload is gone for instance %d", i);
      if (F.readers_in[i] != 0) vrt::fail("writer_entered_instance_with_readers", "update functor %d runs on instance %d while %d reader(s) are inside it", id, i, F.readers_in[i]);
      if (F.writer_in[i] != 0) vrt::fail("two_writers", "two update functors run on instance %d at the same time", i);
      F.writer_in[i] = 1;
      p.a = id;
      vrt::point(); // the instance is inconsistent here
      if (F.readers_in[i] != 0) vrt::fail("reader_entered_instance_being_modified", "a reader entered instance %d while update functor %d is modifying it", i, id);
      p.b = id;
      if (p.n < MAXU) p.log[p.n++] = id;
      F.applied[id][i]++;
      F.writer_in[i] = 0;
    };
    if (id % 2) {
      // a functor object whose rvalue call hands its payload over (like a functor carrying a container that is
      // moved into the instance); update() applies the functor twice, so it must not call it as an rvalue
      struct Consuming {
        decltype(body)* f;
        mutable int payload;
        void operator()(Pair& p) const& { (*f)(p, payload); }
        void operator()(Pair& p) && {
          int v = payload;
          payload = -1;
          (*f)(p, v);
        }
      };
      lr->update(Consuming{&body, id});
    } else {
      lr->update([id, &body](Pair& p) { body(p, id); });
    }
    F.active_updates--;
    vrt::stamp(&r.resp);
    vrt::op_end();
    h.push_back(r);
  }

  void do_read(vh::hvec<LOp>& h) {
    LOp r;
    r.tid = vrt::self();
    r.kind = L_READ;
    vrt::op_begin(1);
    vrt::stamp(&r.inv);
    const int want_init = expect_init;
    r.id = lr->read([want_init](const Pair& p) {
      int i = F.idx(&p);
      if (p.init != want_init)
        vrt::fail("initial_state_lost", "a read functor runs on an instance whose initial content marker is %d instead of %d (instance %d)", p.init, want_init, i);
      if (F.writer_in[i]) vrt::fail("reader_entered_instance_being_modified", "a read functor runs on instance %d while an update functor is modifying it", i);
      F.readers_in[i]++;
      if (F.active_updates > 0) F.reader_during_update = true;
      int a = p.a;
      vrt::point();
      if (F.writer_in[i]) vrt::fail("writer_entered_instance_with_readers", "an update functor entered instance %d while a read functor is inside", i);
      int b = p.b;
      F.readers_in[i]--;
      if (a != b) vrt::fail("torn_read", "a read functor observed a=%d b=%d (a mixture of two updates)", a, b);
      return a;
    });
    vrt::stamp(&r.resp);
    vrt::op_end();
    h.push_back(r);
  }

  void run() {
    nwriters = 1 + (int)vrt::choose(2);
    nreaders = 1 + (int)vrt::choose(3);
    for (int t = 0; t < MAXT; ++t)
      for (int i = 0; i < MAXOPS; ++i) progs[t][i] = (uint8_t)(vrt::choose(4) == 0 ? L_NOP : 1);
    uint64_t ph = (uint64_t)nwriters * 8 + (uint64_t)nreaders;
    for (int t = 0; t < nwriters + nreaders; ++t)
      for (int i = 0; i < MAXOPS; ++i) ph = vh::hmix(ph, progs[t][i] + 4 * t);
    vrt::fp(ph);
    if (vrt::want_desc()) {
      vrt::desc("writers=%d readers=%d;", nwriters, nreaders);
      for (int t = 0; t < nwriters + nreaders; ++t) {
        int n = 0;
        for (int i = 0; i < MAXOPS; ++i) n += progs[t][i] != 0;
        vrt::desc(" %s%d:x%d", t < nwriters ? "W" : "R", t, n);
      }
      vrt::desc("\n");
    }
    // which constructor, and whether the initial content is non-trivial (last draw)
    ctor_mode = (int)vrt::choose(4);
    if (vrt::want_desc())
      vrt::desc("constructor: %s\n", ctor_mode == 1 ? "left_right(source) with non-trivial initial content"
                                     : ctor_mode == 2 ? "left_right(left, right) with non-trivial initial content"
                                     : ctor_mode == 3 ? "left_right()" : "left_right(T{})");
    {
      Pair src;
      if (ctor_mode == 1 || ctor_mode == 2) {
        src.a = src.b = 500;
        src.init = 777;
        expect_init = 777;
        initial_value = 500;
      }
      if (ctor_mode == 1)
        lr = new left_right<Pair>(src);
      else if (ctor_mode == 2) {
        Pair src2 = src;
        lr = new left_right<Pair>(std::move(src), std::move(src2));
      } else if (ctor_mode == 3)
        lr = new left_right<Pair>();
      else
        lr = new left_right<Pair>(Pair{});
    }
    vrt::concurrent_phase(true);
    {
      vh::Threads th;
      for (int t = 0; t < nwriters + nreaders; ++t)
        th.start([this, t] {
          for (int i = 0; i < MAXOPS; ++i)
            if (progs[t][i]) {
              vrt::point();
              if (t < nwriters)
                do_update(hist[t]);
              else
                do_read(hist[t]);
            }
        });
      th.join_all();
    }
    vrt::concurrent_phase(false);

    // every update was applied exactly once to each of the two instances, in the same order
    for (int id = 1; id < next_id; ++id)
      if (F.applied[id][0] != 1 || F.applied[id][1] != 1)
        vrt::fail("update_not_applied_once", "update %d was applied %d time(s) to one instance and %d time(s) to the other", id, F.applied[id][0], F.applied[id][1]);
    // a final no-op update visits both instances: both must have applied all updates in the same order
    Pair copies[2];
    int k = 0;
    lr->update([&](Pair& p) {
      if (k < 2) copies[k] = p;
      k++;
    });
    if (k != 2) vrt::fail("update_not_applied_once", "an update functor was called %d times", k);
    if (copies[0].n != next_id - 1 || copies[1].n != next_id - 1)
      vrt::fail("update_not_applied_once", "instance logs have %d and %d entries for %d updates", copies[0].n, copies[1].n, next_id - 1);
    if (memcmp(copies[0].log, copies[1].log, sizeof(int) * (size_t)copies[0].n) != 0)
      vrt::fail("instances_diverge", "the two instances applied the updates in a different order");
    if (copies[0].init != expect_init || copies[1].init != expect_init)
      vrt::fail("initial_state_lost", "initial content markers of the two instances are %d and %d, expected %d (constructor mode %d)", copies[0].init, copies[1].init,
                expect_init, ctor_mode);

    vh::hvec<LOp> all;
    for (int t = 0; t < MAXT; ++t)
      for (auto& o : hist[t]) all.push_back(o);
    LSpec spec;
    LSpec::State init;
    init.v = initial_value;
    lin::Checker<LSpec> chk(spec, all);
    if (!chk.run(init)) {
      vrt::desc("history (not linearizable):\n");
      for (auto& o : all) vrt::desc("  t%d %s %d [%lu,%lu]\n", o.tid, o.kind == L_UPDATE ? "update" : "read ->", o.id, (unsigned long)o.inv.step, (unsigned long)o.resp.step);
      vrt::fail("not_linearizable", "history of %zu reads/updates has no linearization w.r.t. a register (longest consistent prefix: %zu)", all.size(),
                chk.deepest_order.size());
    }
    delete lr;
    uint64_t hh = 0;
    for (auto& o : all) hh = vh::hmix(hh, (uint64_t)o.kind + 4 * (uint64_t)o.id);
    vrt::fp(hh);
    if (F.reader_during_update) {
      vrt::label("reader_inside_during_update");
      vrt::nontrivial();
    }
  }
};

void run_lr() {
  vrt::TagScope ts(vrt::TAG_HARNESS);
  auto* h = new LRHarness();
  vrt::set_alloc_tag(vrt::TAG_DEFAULT);
  h->run();
}

const vrt::Cfg cfgs[] = {vrt::Cfg{"left_right_pair", &run_lr, "quick"}};
const vrt::Harness harness{"lrhist", cfgs, 1};
} // namespace

extern "C" const vrt::Harness* vrt_harness() {
  return &harness;
}
