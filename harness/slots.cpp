// placeholder until the slot harness lands (keeps vprops.HARNESSES consistent)
#include "hcommon.hpp"
namespace { void nothing() { vrt::nontrivial(); } const vrt::Cfg cfgs[] = {vrt::Cfg{"none", &nothing, "quick"}}; const vrt::Harness harness{"slots", cfgs, 1}; }
extern "C" const vrt::Harness* vrt_harness() { return &harness; }
