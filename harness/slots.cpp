// slots — hazard pointer / hazard era slots (C18): K slots available with the static strategy, exhaustion is
// reported by bad_hazard_pointer_alloc / bad_hazard_era_alloc, existing guards keep protecting, slots are reusable,
// the dynamic strategy never runs out; across thread exit and control-block reuse.
#include "prelude_begin.hpp"

#include <xenium/reclamation/hazard_eras.hpp>
#include <xenium/reclamation/hazard_pointer.hpp>

#include "prelude_end.hpp"

#include "hcommon.hpp"

using namespace xenium;
namespace rec = xenium::reclamation;

namespace {

constexpr int MAXN = 64;
constexpr int MAXV = 8;
constexpr int MAXOPS = 24;

struct Reg {
  bool allocated[MAXN], retired[MAXN], destroyed[MAXN];
  int n = 0;
  int held[MAXV]; // object id held by guard variable (by the model), -1 none
} R;

template <class Rc>
struct Node;
template <class Rc>
struct Del {
  int id = -1;
  void operator()(Node<Rc>* n) const;
};
template <class Rc>
struct Node : Rc::template enable_concurrent_ptr<Node<Rc>, 1, Del<Rc>> {
  int id;
  uint32_t canary = 0xFACADE;
  explicit Node(int i) : id(i) {}
};
template <class Rc>
void Del<Rc>::operator()(Node<Rc>* n) const {
  if (n->id != id) vrt::fail("wrong_deleter", "deleter of object %d applied to object %d", id, n->id);
  if (R.destroyed[id]) vrt::fail("double_destroy", "object %d destroyed twice", id);
  for (int v = 0; v < MAXV; ++v)
    if (R.held[v] == id) vrt::fail("destroyed_while_guarded", "object %d destroyed while guard variable %d protects it", id, v);
  R.destroyed[id] = true;
  n->canary = 0;
  delete n;
}

enum OpK : uint8_t { S_NOP = 0, S_ACQUIRE, S_ACQ_EQ, S_COPY_ASSIGN, S_MOVE_ASSIGN, S_SWAP, S_RESET, S_RECREATE, S_COPY_CTOR, S_MOVE_CTOR, S_FROM_PTR, S_RETIRE, S_USE, S_LOOP, S_NK };
const char* const names[S_NK] = {"nop",   "acquire",  "acquire_if_equal", "copy_assign", "move_assign", "swap", "reset",
                                 "destroy+default", "copy_ctor", "move_ctor",        "ctor_from_ptr", "retire+scan", "use", "acquire/release x2000"};
struct Op {
  uint8_t kind, i, j, c;
};

template <class Rc, class BadAlloc, int K, bool STATIC>
struct SlotHarness {
  using N = Node<Rc>;
  using CP = typename Rc::template concurrent_ptr<N, 1>;
  using MP = typename CP::marked_ptr;
  using GP = typename CP::guard_ptr;
  static constexpr int NV = K + 2;

  CP cells[2];
  int cell_obj[2] = {-1, -1};
  N* objs[MAXN] = {};
  Op progs[3][MAXOPS];
  int nthreads = 1;
  bool reached_full = false, threw = false;
  uint64_t hist = 0;

  N* fresh() {
    if (R.n >= MAXN) vrt::inconclusive("too_many_objects");
    int id = R.n++;
    R.allocated[id] = true;
    vrt::TagScope ts(vrt::TAG_CLIENT);
    objs[id] = new N(id);
    return objs[id];
  }

  struct Var {
    alignas(GP) unsigned char buf[sizeof(GP)];
    bool maybe_slot = false; // empty, but not reset/destroyed/moved-from since it may have got a slot
    GP& g() { return *reinterpret_cast<GP*>(buf); }
  };

  void run_thread(int prog) {
    Var v[MAXV];
    for (int i = 0; i < MAXV; ++i) R.held[i] = -1;
    for (int i = 0; i < NV; ++i) new (v[i].buf) GP();
    auto protecting = [&] {
      int p = 0;
      for (int i = 0; i < NV; ++i) p += R.held[i] >= 0;
      return p;
    };
    auto upper = [&] { // upper bound of slots in use
      int u = 0;
      for (int i = 0; i < NV; ++i) u += (R.held[i] >= 0) || v[i].maybe_slot;
      return u;
    };
    auto verify = [&](const char* after) {
      for (int i = 0; i < NV; ++i) {
        GP& g = v[i].g();
        int id = g.get() ? g.get()->id : -1;
        if (id != R.held[i]) vrt::fail("guard_value_model", "after %s guard variable %d holds object %d, the model says %d", after, i, id, R.held[i]);
        if (id >= 0) {
          vrt::check_access(g.get(), sizeof(N), false);
          if (g.get()->canary != 0xFACADE || R.destroyed[id]) vrt::fail("use_after_destroy", "after %s guard variable %d refers to destroyed object %d", after, i, id);
        }
      }
    };
    // helper: does performing `f` (which may need one new slot for variable `target`) throw?
    auto attempt = [&](int target, bool needs_slot_if_protecting, auto&& f, const char* what) -> bool {
      bool target_has_slot = R.held[target] >= 0 || v[target].maybe_slot;
      int u = upper();
      try {
        f();
        return true;
      } catch (const BadAlloc&) {
        threw = true;
        vrt::label("allocation_exception_thrown");
        if (!STATIC) vrt::fail("dynamic_strategy_threw", "%s threw although the dynamic allocation strategy is used", what);
        (void)target_has_slot;
        (void)needs_slot_if_protecting;
        if (u < K) vrt::fail("slots_not_available", "%s threw although at most %d of the %d slots can be in use (%d protecting guards)", what, u, K, protecting());
        return false;
      } catch (...) {
        vrt::fail("wrong_exception", "%s threw something else than the allocation exception of the scheme", what);
      }
    };
    auto after_throw = [&](int target) {
      // the target is brought into a defined state; everybody else must be untouched
      v[target].g().reset();
      R.held[target] = -1;
      v[target].maybe_slot = false;
      verify("an allocation exception");
    };

    // a new thread (also one that re-uses the control block of an exited thread) has all K slots available
    if (STATIC || true) {
      int got = 0;
      for (int i = 0; i < K && i < NV; ++i) {
        bool ok = attempt(i, true, [&] { v[i].g().acquire(cells[i % 2], std::memory_order_acquire); }, "initial acquire");
        if (!ok) vrt::fail("slots_not_available", "a fresh thread could only hold %d of K=%d protecting guards", got, K);
        R.held[i] = cell_obj[i % 2];
        got++;
      }
      verify("initial acquires");
      reached_full = true;
      for (int i = 0; i < K && i < NV; ++i) {
        v[i].g().reset();
        R.held[i] = -1;
      }
    }

    for (int k = 0; k < MAXOPS; ++k) {
      Op op = progs[prog][k];
      if (op.kind == S_NOP) continue;
      int i = op.i % NV, j = op.j % NV, c = op.c % 2;
      hist = vh::hmix(hist, op.kind * 512 + i * 64 + j * 8 + c);
      switch (op.kind) {
      case S_ACQUIRE: {
        bool ok = attempt(i, true, [&] { v[i].g().acquire(cells[c], std::memory_order_acquire); }, "acquire");
        if (ok) {
          R.held[i] = cell_obj[c];
          v[i].maybe_slot = false;
        } else
          after_throw(i);
        break;
      }
      case S_ACQ_EQ: {
        MP expected = op.j % 3 == 0 ? MP(objs[cell_obj[c]]) : op.j % 3 == 1 ? MP(objs[cell_obj[1 - c]]) : MP();
        bool res = false;
        bool ok = attempt(i, true, [&] { res = v[i].g().acquire_if_equal(cells[c], expected, std::memory_order_acquire); }, "acquire_if_equal");
        if (ok) {
          bool want = expected == cells[c].load();
          if (res != want) vrt::fail("acquire_if_equal_mismatch", "acquire_if_equal returned %d but should return %d", (int)res, (int)want);
          R.held[i] = res ? cell_obj[c] : -1;
          v[i].maybe_slot = !res; // a failed acquire_if_equal is not a reset in the sense of the statement
          if (!res && v[i].g().get() != nullptr) vrt::fail("acquire_if_equal_mismatch", "acquire_if_equal returned false but left the guard non-empty");
        } else
          after_throw(i);
        break;
      }
      case S_COPY_ASSIGN: {
        if (i == j) {
          auto& ref = v[j].g();
          v[i].g() = ref;
          break;
        }
        bool ok = attempt(i, true, [&] { v[i].g() = v[j].g(); }, "copy assignment");
        if (ok) {
          R.held[i] = R.held[j];
          v[i].maybe_slot = R.held[i] < 0; // hazard pointers keep/allocate a slot when an empty guard is assigned
        } else
          after_throw(i);
        break;
      }
      case S_MOVE_ASSIGN:
        if (i != j) {
          v[i].g() = std::move(v[j].g());
          R.held[i] = R.held[j];
          R.held[j] = -1;
          v[i].maybe_slot = v[j].maybe_slot && R.held[i] < 0;
          v[j].maybe_slot = false;
        } else {
          auto& ref = v[j].g();
          v[i].g() = std::move(ref);
        }
        break;
      case S_SWAP:
        v[i].g().swap(v[j].g());
        std::swap(R.held[i], R.held[j]);
        std::swap(v[i].maybe_slot, v[j].maybe_slot);
        break;
      case S_RESET:
        v[i].g().reset();
        if (op.c) v[i].g().reset();
        R.held[i] = -1;
        v[i].maybe_slot = false;
        break;
      case S_RECREATE:
        v[i].g().~GP();
        new (v[i].buf) GP();
        R.held[i] = -1;
        v[i].maybe_slot = false;
        break;
      case S_COPY_CTOR: {
        if (i == j) break;
        v[i].g().~GP();
        R.held[i] = -1;
        v[i].maybe_slot = false;
        bool constructed = false;
        bool ok = attempt(i, false, [&] {
          new (v[i].buf) GP(v[j].g());
          constructed = true;
        }, "copy construction");
        if (ok) {
          R.held[i] = R.held[j];
        } else {
          if (!constructed) new (v[i].buf) GP();
          verify("an allocation exception");
        }
        break;
      }
      case S_MOVE_CTOR: {
        if (i == j) break;
        v[i].g().~GP();
        new (v[i].buf) GP(std::move(v[j].g()));
        R.held[i] = R.held[j];
        R.held[j] = -1;
        v[i].maybe_slot = v[j].maybe_slot && R.held[i] < 0;
        v[j].maybe_slot = false;
        if (v[j].g().get() != nullptr) vrt::fail("move_leaves_source", "moved-from guard is not empty");
        break;
      }
      case S_FROM_PTR: {
        // guard constructed from a pointer: the object is linked into the cell and not retired, so it cannot be reclaimed
        v[i].g().~GP();
        R.held[i] = -1;
        v[i].maybe_slot = false;
        bool constructed = false;
        bool ok = attempt(i, false, [&] {
          new (v[i].buf) GP(MP(objs[cell_obj[c]]));
          constructed = true;
        }, "construction from marked_ptr");
        if (ok)
          R.held[i] = cell_obj[c];
        else {
          if (!constructed) new (v[i].buf) GP();
          verify("an allocation exception");
        }
        break;
      }
      case S_RETIRE: {
        // another thread replaces the object in the cell, retires the old one and thereby scans (threshold 0)
        struct Arg {
          SlotHarness* h;
          int c;
        } arg{this, c};
        int t = vrt::spawn(
          [](void* a) {
            auto* x = static_cast<Arg*>(a);
            SlotHarness* h = x->h;
            N* n = h->fresh();
            GP old;
            old.acquire(h->cells[x->c], std::memory_order_acquire);
            h->cells[x->c].store(MP(n), std::memory_order_release);
            int oid = old->id;
            R.retired[oid] = true;
            old.reclaim(Del<Rc>{oid});
            h->cell_obj[x->c] = n->id;
          },
          &arg);
        vrt::join(t);
        vrt::label("retire_and_scan_by_other_thread");
        break;
      }
      case S_USE: verify("use"); break;
      case S_LOOP: {
        // repeated acquire/release never exhausts the slots
        if (upper() - ((R.held[i] >= 0 || v[i].maybe_slot) ? 1 : 0) >= K && STATIC) break; // the others occupy everything: nothing promised
        v[i].g().reset();
        R.held[i] = -1;
        v[i].maybe_slot = false;
        int rounds = (int)vrt::param("loop_rounds", 2000); // the thorough tier uses 10000
        for (int r = 0; r < rounds; ++r) {
          vrt::op_begin(1);
          try {
            v[i].g().acquire(cells[r & 1], std::memory_order_acquire);
          } catch (...) {
            vrt::fail("slots_not_reusable", "acquire/release round %d threw: released slots are not reusable", r);
          }
          if (v[i].g().get() != objs[cell_obj[r & 1]]) vrt::fail("guard_value_model", "acquire in round %d returned a wrong object", r);
          v[i].g().reset();
          vrt::op_end();
        }
        vrt::label("acquire_release_loop");
        break;
      }
      default: break;
      }
      if (STATIC && protecting() >= K) reached_full = true;
      verify(names[op.kind]);
      // claim (iii): after an exception, releasing one guard makes the same kind of operation succeed
      if (threw && STATIC && op.kind == S_ACQUIRE) {
        bool failed_now = R.held[i] < 0 && !v[i].maybe_slot && cell_obj[c] >= 0;
        if (failed_now && upper() >= K) {
          for (int x = 0; x < NV; ++x)
            if (v[x].maybe_slot) {
              v[x].g().reset();
              v[x].maybe_slot = false;
            }
          // hazard eras share a slot between copies, so more than K guards can protect at once; the promise is
          // that the thread can continue once fewer than K guards protect (for hazard pointers: after releasing one)
          for (int x = 0; x < NV && protecting() >= K; ++x)
            if (R.held[x] >= 0) {
              v[x].g().reset();
              R.held[x] = -1;
            }
          try {
            v[i].g().acquire(cells[c], std::memory_order_acquire);
          } catch (...) {
            vrt::fail("no_recovery_after_exhaustion", "acquire still throws after another guard was released");
          }
          R.held[i] = cell_obj[c];
          verify("recovery after exhaustion");
          vrt::label("recovered_after_release");
        }
      }
    }
    for (int i = NV - 1; i >= 0; --i) {
      v[i].g().~GP();
      R.held[i] = -1;
    }
  }

  void run() {
    nthreads = 1 + (int)vrt::choose(3);
    static const uint32_t w[S_NK] = {6, 14, 6, 6, 4, 3, 6, 2, 4, 3, 4, 2, 4, 1};
    for (int t = 0; t < 3; ++t)
      for (int k = 0; k < MAXOPS; ++k) {
        Op o;
        o.kind = (uint8_t)vrt::weighted(w, S_NK);
        o.i = (uint8_t)vrt::choose(NV);
        o.j = (uint8_t)vrt::choose(NV);
        o.c = (uint8_t)vrt::choose(2);
        progs[t][k] = o;
      }
    if (vrt::want_desc()) {
      vrt::desc("K=%d %s strategy, %d guard variables, %d thread(s) one after the other\n", K, STATIC ? "static" : "dynamic", NV, nthreads);
      for (int t = 0; t < nthreads; ++t) {
        vrt::desc("  T%d:", t + 1);
        for (int k = 0; k < MAXOPS; ++k)
          if (progs[t][k].kind) vrt::desc(" %s(v%d,v%d,cell%d)", names[progs[t][k].kind], progs[t][k].i % NV, progs[t][k].j % NV, progs[t][k].c % 2);
        vrt::desc("\n");
      }
    }
    for (int c = 0; c < 2; ++c) {
      N* n = fresh();
      cells[c].store(MP(n), std::memory_order_release);
      cell_obj[c] = n->id;
    }
    for (int t = 0; t < nthreads; ++t) {
      struct Arg {
        SlotHarness* h;
        int t;
      } arg{this, t};
      int tid = vrt::spawn([](void* a) { static_cast<Arg*>(a)->h->run_thread(static_cast<Arg*>(a)->t); }, &arg);
      vrt::join(tid);
    }
    vrt::fp(hist);
    vrt::fp((uint64_t)nthreads);
    if (threw) vrt::label("exhaustion_observed");
    if (reached_full) vrt::nontrivial();
  }
};

template <class Rc, class BadAlloc, int K, bool STATIC>
void run_s() {
  vrt::TagScope ts(vrt::TAG_HARNESS);
  auto* h = new SlotHarness<Rc, BadAlloc, K, STATIC>();
  vrt::set_alloc_tag(vrt::TAG_DEFAULT);
  h->run();
}

template <int K>
using HPs = rec::hazard_pointer<>::with<policy::allocation_strategy<rec::hp_allocation::static_strategy<K, 0, 0>>>;
template <int K>
using HPd = rec::hazard_pointer<>::with<policy::allocation_strategy<rec::hp_allocation::dynamic_strategy<K, 0, 0>>>;
template <int K>
using HEs = rec::hazard_eras<>::with<policy::allocation_strategy<rec::he_allocation::static_strategy<K, 0, 0>>>;
template <int K>
using HEd = rec::hazard_eras<>::with<policy::allocation_strategy<rec::he_allocation::dynamic_strategy<K, 0, 0>>>;

#define SC(name, R, E, K, ST, tags) vrt::Cfg{name, &run_s<R, E, K, ST>, tags}
const vrt::Cfg cfgs[] = {
  SC("hp_static1", HPs<1>, rec::bad_hazard_pointer_alloc, 1, true, "quick,hp"),
  SC("hp_static2", HPs<2>, rec::bad_hazard_pointer_alloc, 2, true, "quick,hp"),
  SC("hp_static3", HPs<3>, rec::bad_hazard_pointer_alloc, 3, true, "quick,hp"),
  SC("hp_static5", HPs<5>, rec::bad_hazard_pointer_alloc, 5, true, "quick,hp"),
  SC("hp_dynamic1", HPd<1>, rec::bad_hazard_pointer_alloc, 1, false, "quick,hp"),
  SC("hp_dynamic2", HPd<2>, rec::bad_hazard_pointer_alloc, 2, false, "quick,hp"),
  SC("he_static1", HEs<1>, rec::bad_hazard_era_alloc, 1, true, "quick,he"),
  SC("he_static2", HEs<2>, rec::bad_hazard_era_alloc, 2, true, "quick,he"),
  SC("he_static3", HEs<3>, rec::bad_hazard_era_alloc, 3, true, "quick,he"),
  SC("he_static5", HEs<5>, rec::bad_hazard_era_alloc, 5, true, "quick,he"),
  SC("he_dynamic1", HEd<1>, rec::bad_hazard_era_alloc, 1, false, "quick,he"),
  SC("he_dynamic2", HEd<2>, rec::bad_hazard_era_alloc, 2, false, "quick,he"),
};
const vrt::Harness harness{"slots", cfgs, (int)(sizeof cfgs / sizeof cfgs[0])};
} // namespace

extern "C" const vrt::Harness* vrt_harness() {
  return &harness;
}
