// vhist — vyukov_hash_map (C10 linearizable map incl. lock-free reads and resizing, C11 iterators;
// weak tier of C03; solo tier of C16 for try_get_value).
#include "prelude_begin.hpp"

#include <xenium/reclamation/generic_epoch_based.hpp>
#include <xenium/reclamation/hazard_eras.hpp>
#include <xenium/reclamation/hazard_pointer.hpp>
#include <xenium/reclamation/quiescent_state_based.hpp>
#include <xenium/reclamation/stamp_it.hpp>
#include <xenium/vyukov_hash_map.hpp>

#include "prelude_end.hpp"

#include "hcommon.hpp"
#include "lin.hpp"

using namespace xenium;
namespace rec = xenium::reclamation;

namespace {

constexpr int MAXK = 16;
constexpr int MAXT = 4;
constexpr int MAXOPS = 6;
constexpr int MAXID = 200;

struct Life {
  int live[MAXID];
  int destroyed[MAXID];
} L;

enum OpK : uint8_t { O_NOP = 0, O_INSERT, O_ERASE, O_EXTRACT, O_TRYGET, O_FIND, O_ERASE_IT, O_YIELD, O_SCAN, O_NK };

struct VOp : lin::OpBase {
  uint8_t kind = 0, variant = 0, key = 0;
  bool ok = false, has_obs = false;
  int obs = 0, id = 0;
  uint8_t scan_n = 0;
  uint8_t scan_key[MAXK];
  int scan_id[MAXK];
};

struct VSpec {
  using Op = VOp;
  struct State {
    int v[MAXK];
  };
  uint64_t hash(const State& s) const {
    uint64_t h = 11;
    for (int i = 0; i < MAXK; ++i) h = vh::hmix(h, (uint64_t)s.v[i]);
    return h;
  }
  bool equal(const State& a, const State& b) const { return memcmp(a.v, b.v, sizeof a.v) == 0; }
  int alternatives(const Op&) const { return 1; }
  // Weak executions (C03): operations that do not synchronize with each other may be ordered differently by
  // different observers (a C++11-consistent execution can contain a cycle of happens-before and "did not see"
  // edges), so verdicts that change nothing - absent, already present, a value seen by a lookup - are not required to
  // fit one total order. What stays exact: successful insertions and removals alternate per key consistently with
  // happens-before, observed values are values that were inserted for that key, the final iteration equals the
  // result; an "absent" verdict that happens-after an insertion no removal can follow is checked separately.
  bool weak = false;
  int16_t id_key[256] = {}; // weak: key + 1 an id was inserted for
  bool valid(const Op& o) const { return o.obs >= 0 && o.obs < 256 && id_key[o.obs] == o.key + 1; }
  bool apply(State& s, const Op& o, int = 0) const {
    int& cur = s.v[o.key];
    switch (o.kind) {
    case O_INSERT:
      if (o.ok) {
        if (cur != 0) return false;
        if (o.has_obs && o.obs != o.id) return false;
        cur = o.id + 1;
        return true;
      }
      if (weak) return !o.has_obs || valid(o);
      if (cur == 0) return false;
      return !o.has_obs || cur == o.obs + 1;
    case O_ERASE:
      if (o.ok) {
        if (cur == 0) return false;
        cur = 0;
        return true;
      }
      return weak || cur == 0;
    case O_EXTRACT:
      if (o.ok) {
        if (cur == 0 || cur != o.obs + 1) return false;
        cur = 0;
        return true;
      }
      return weak || cur == 0;
    case O_TRYGET:
    case O_FIND:
    case O_YIELD:
      if (weak) return !o.ok || valid(o);
      if (o.ok) return cur == o.obs + 1;
      return cur == 0;
    case O_ERASE_IT:
      if (cur != o.obs + 1) return false; // the iterator holds the bucket lock: the element it refers to is still there
      cur = 0;
      return true;
    case O_SCAN: {
      int cnt = 0;
      for (int k = 0; k < MAXK; ++k)
        if (s.v[k]) cnt++;
      if (cnt != o.scan_n) return false;
      for (int i = 0; i < o.scan_n; ++i)
        if (s.v[o.scan_key[i]] != o.scan_id[i] + 1) return false;
      return true;
    }
    default: return true;
    }
  }
};

// ---- key / value kinds -------------------------------------------------------------------------------------
template <class K>
struct KT;
template <>
struct KT<int> {
  static int make(int kv) { return kv; }
  static int back(const int& k) { return k; }
};
template <>
struct KT<std::string> {
  static constexpr const char* prefix = "key-with-a-long-prefix-to-defeat-sso-";
  static std::string make(int kv) { return prefix + std::to_string(kv); }
  static int back(const std::string& k) {
    if (k.compare(0, strlen(prefix), prefix) != 0) vrt::fail("torn_value", "string key '%s' is not a key that was ever stored", k.c_str());
    return atoi(k.c_str() + strlen(prefix));
  }
};
struct SHash { // hash of a string key = its number: the same bucket arithmetic as for int keys
  std::size_t operator()(const std::string& s) const { return (std::size_t)KT<std::string>::back(s); }
};
struct SHashConst {
  std::size_t operator()(const std::string&) const { return 5; }
};

template <class R>
struct VNode : R::template enable_concurrent_ptr<VNode<R>> {
  int id;
  uint32_t canary = 0xC0FFEE;
  explicit VNode(int i) : id(i) {
    if (i <= 0 || i >= MAXID) vrt::fail("harness_error", "value id out of range");
    if (++L.live[i] != 1) vrt::fail("duplicated_value", "value %d exists %d times", i, L.live[i]);
  }
  ~VNode() {
    if (canary != 0xC0FFEE) vrt::fail("double_destroy", "managed value %d destroyed twice", id);
    canary = 0xDEAD;
    L.live[id]--;
    if (++L.destroyed[id] > 1) vrt::fail("double_destroy", "managed value %d destroyed twice", id);
  }
};

enum VKind { V_INT, V_STR, V_MANAGED };
template <class V, class R>
struct VT;
template <class R>
struct VT<int, R> {
  static constexpr VKind kind = V_INT;
  using value_type = int;
  static int make(int id) { return id; }
  static void discard(int&) {}
  template <class Acc>
  static int id_of_acc(Acc& a) {
    return *a;
  }
  static int id_of(const int& v) { return v; }
  template <class Acc>
  static void release_extracted(Acc&) {}
};
template <class R>
struct VT<std::string, R> {
  static constexpr VKind kind = V_STR;
  using value_type = std::string;
  static constexpr const char* prefix = "value-with-a-long-prefix-to-defeat-sso-";
  static std::string make(int id) { return prefix + std::to_string(id); }
  static void discard(std::string&) {}
  static int id_of(const std::string& v) {
    if (v.compare(0, strlen(prefix), prefix) != 0) vrt::fail("torn_value", "string value '%s' is not a value that was ever stored", v.c_str());
    return atoi(v.c_str() + strlen(prefix));
  }
  template <class Acc>
  static int id_of_acc(Acc& a) {
    return id_of(*a);
  }
  template <class Acc>
  static void release_extracted(Acc&) {}
};
template <class R>
struct VT<managed_ptr<VNode<R>, R>, R> {
  static constexpr VKind kind = V_MANAGED;
  using value_type = VNode<R>*;
  static VNode<R>* make(int id) {
    vrt::TagScope ts(vrt::TAG_CLIENT);
    return new VNode<R>(id);
  }
  static void discard(VNode<R>*& v) { // a value the map did not take
    delete v;
    v = nullptr;
  }
  static int id_of(VNode<R>* const& v) {
    vrt::check_access(&v->id, sizeof(int) + sizeof(uint32_t), false); // the payload only: the reclaimer owns the intrusive list fields
    if (v->canary != 0xC0FFEE) vrt::fail("use_after_destroy", "managed value at %p has been destroyed", (void*)v);
    return v->id;
  }
  template <class Acc>
  static int id_of_acc(Acc& a) {
    return id_of(a.operator->());
  }
  template <class Acc>
  static void release_extracted(Acc& a) {
    // extract hands the value over to the caller, who retires it through the value's reclaimer
    using CP = typename R::template concurrent_ptr<VNode<R>, 0>;
    VNode<R>* p = a.operator->();
    a.reset();
    typename CP::guard_ptr g{typename CP::marked_ptr(p)};
    g.reclaim();
  }
};

template <class Map_, class K_, class V_, class R_>
struct VA {
  using Map = Map_;
  using K = K_;
  using V = V_;
  using R = R_;
  using VTT = VT<V_, R_>;
};

template <class R>
struct RegionScope {
  alignas(typename R::region_guard) unsigned char buf[sizeof(typename R::region_guard)];
  bool on;
  explicit RegionScope(bool enable) : on(enable) {
    if (on) new (buf) typename R::region_guard();
  }
  ~RegionScope() {
    using RG = typename R::region_guard;
    if (on) reinterpret_cast<RG*>(buf)->~RG();
  }
};

template <class A>
struct VHarness {
  int region_mode = 0;
  using Map = typename A::Map;
  using K = typename A::K;
  using VTT = typename A::VTT;
  using Acc = typename Map::accessor;
  using It = typename Map::iterator;
  struct POp {
    uint8_t kind, variant, key;
  };
  enum IK : uint8_t { I_NOP = 0, I_INC, I_ERASE, I_DEREF2, I_MOVE, I_RESET };

  Map* m = nullptr;
  int U = 5, cap = 1, pattern = 0;
  int keyval[MAXK];
  POp prefix[44];
  int nprefix = 0;
  POp progs[MAXT][MAXOPS];
  int nthreads = 2;
  bool with_iter = false, iter_from_find = false;
  uint8_t iter_key = 0;
  uint8_t iprog[14];
  vh::hvec<VOp> hist[MAXT + 2];
  int next_id = 1;
  bool reader_overlapped_removal = false;
  int stable_from = 99;

  int key_index(int kv) {
    for (int i = 0; i < U; ++i)
      if (keyval[i] == kv) return i;
    vrt::fail("wrong_element", "the map produced key %d which was never inserted", kv);
  }

  void exec(const POp& o, vh::hvec<VOp>& h) {
    VOp r;
    r.tid = vrt::self();
    r.kind = o.kind;
    r.variant = o.variant;
    r.key = o.key;
    K key = KT<K>::make(keyval[o.key]);
    switch (o.kind) {
    case O_INSERT: {
      r.id = next_id++;
      if (r.id >= MAXID - 1) return;
      auto val = VTT::make(r.id);
      vrt::op_begin(0);
      vrt::stamp(&r.inv);
      if (o.variant == 0) {
        r.ok = m->emplace(key, val);
        if (!r.ok) VTT::discard(val);
      } else if (o.variant == 1) {
        auto res = m->get_or_emplace(key, val);
        r.ok = res.second;
        r.has_obs = true;
        r.obs = VTT::id_of_acc(res.first);
        if (!r.ok) VTT::discard(val);
      } else {
        bool called = false;
        auto res = m->get_or_emplace_lazy(key, [&] {
          called = true;
          return val;
        });
        r.ok = res.second;
        r.has_obs = true;
        r.obs = VTT::id_of_acc(res.first);
        if (r.ok != called) vrt::fail("wrong_element", "get_or_emplace_lazy: inserted=%d but factory called=%d", (int)r.ok, (int)called);
        if (!r.ok) VTT::discard(val);
      }
      vrt::stamp(&r.resp);
      vrt::op_end();
      h.push_back(r);
      break;
    }
    case O_ERASE: {
      vrt::op_begin(0);
      vrt::stamp(&r.inv);
      r.ok = m->erase(key);
      vrt::stamp(&r.resp);
      vrt::op_end();
      h.push_back(r);
      break;
    }
    case O_EXTRACT: {
      vrt::op_begin(0);
      vrt::stamp(&r.inv);
      {
        Acc acc;
        r.ok = m->extract(key, acc);
        if (r.ok) {
          r.has_obs = true;
          r.obs = VTT::id_of_acc(acc);
          VTT::release_extracted(acc);
        }
      }
      vrt::stamp(&r.resp);
      vrt::op_end();
      h.push_back(r);
      break;
    }
    case O_TRYGET: {
      vrt::op_begin(1);
      vrt::stamp(&r.inv);
      {
        Acc acc;
        r.ok = m->try_get_value(key, acc);
        if (r.ok) {
          vrt::point(); // between obtaining the accessor and using what it guards
          r.has_obs = true;
          r.obs = VTT::id_of_acc(acc);
        }
      }
      vrt::stamp(&r.resp);
      vrt::op_end();
      h.push_back(r);
      break;
    }
    case O_FIND: { // the iterator holds the bucket lock only briefly
      vrt::op_begin(0);
      vrt::stamp(&r.inv);
      {
        It it = m->find(key);
        r.ok = it != m->end();
        if (r.ok) {
          auto kv = *it;
          if (KT<K>::back(kv.first) != keyval[o.key]) vrt::fail("wrong_element", "find(%d) returned an iterator to key %d", keyval[o.key], KT<K>::back(kv.first));
          r.has_obs = true;
          r.obs = VTT::id_of(kv.second);
        }
      }
      vrt::stamp(&r.resp);
      vrt::op_end();
      h.push_back(r);
      break;
    }
    default: break;
    }
  }

  // iterator session: begin()/find(), then ++ / erase(it) / repeated dereference / move / reset
  struct Yield {
    int key, id;
  };
  vh::hvec<Yield> yields;
  bool session_complete = false, session_from_begin = false;
  bool self_erased[MAXK] = {};

  void yield_current(It& it, vh::hvec<VOp>& h) {
    VOp r;
    r.tid = vrt::self();
    r.kind = O_YIELD;
    vrt::stamp(&r.inv);
    auto kv = *it;
    int k = key_index(KT<K>::back(kv.first));
    int id = VTT::id_of(kv.second);
    vrt::stamp(&r.resp);
    for (auto& y : yields)
      if (y.key == k) vrt::fail("yielded_twice", "iterator yielded key %d twice (ids %d and %d) while holding bucket locks", keyval[k], y.id, id);
    yields.push_back(Yield{k, id});
    r.key = (uint8_t)k;
    r.ok = true;
    r.has_obs = true;
    r.obs = id;
    h.push_back(r);
  }

  void iterator_session(vh::hvec<VOp>& h) {
    vrt::op_begin(0);
    It it = iter_from_find ? m->find(KT<K>::make(keyval[iter_key])) : m->begin();
    vrt::op_end();
    session_from_begin = !iter_from_find;
    It other; // target of moves
    It* cur = &it;
    int step = 0;
    bool reset_early = false;
    while (*cur != m->end()) {
      yield_current(*cur, h);
      vrt::point();
      uint8_t a = step < 14 ? iprog[step] : (uint8_t)I_INC;
      step++;
      vrt::op_begin(0);
      switch (a) {
      case I_ERASE: {
        Yield y = yields.back();
        VOp e;
        e.tid = vrt::self();
        e.kind = O_ERASE_IT;
        e.key = (uint8_t)y.key;
        e.obs = y.id;
        vrt::stamp(&e.inv);
        m->erase(*cur);
        vrt::stamp(&e.resp);
        h.push_back(e);
        self_erased[y.key] = true;
        vrt::label("erase_through_iterator");
        break;
      }
      case I_DEREF2: {
        auto a1 = **cur;
        vrt::point();
        auto a2 = **cur;
        if (KT<K>::back(a1.first) != KT<K>::back(a2.first)) vrt::fail("wrong_element", "dereferencing the same iterator twice gave different keys");
        ++*cur;
        break;
      }
      case I_MOVE: {
        It* tgt = cur == &it ? &other : &it;
        *tgt = std::move(*cur); // the target is an end iterator: at most one iterator is alive at any time
        if (*cur != m->end()) vrt::fail("move_leaves_source", "moved-from iterator is not an end iterator");
        cur = tgt;
        It third(std::move(*cur));
        *cur = std::move(third);
        vrt::label("iterator_moved");
        ++*cur;
        break;
      }
      case I_RESET:
        cur->reset();
        reset_early = true;
        vrt::label("iterator_reset_early");
        break;
      default: ++*cur; break;
      }
      vrt::op_end();
      if (step > 30) vrt::fail("traversal_does_not_end", "an iterator session over at most %d keys took more than 30 steps", U);
    }
    session_complete = !reset_early;
  }

  void run() {
    const bool c11 = vh::prop_is("C11");
    const bool seq = vrt::param("sequential", 0) != 0;
    static const int caps[5] = {1, 2, 4, 128, 256};
    cap = caps[vrt::choose(5)];
    U = 4 + (int)vrt::choose(5);
    pattern = (int)vrt::choose(4); // value 3 was added later: older replay files only contain 0..2 and decode unchanged
    int base = (int)vrt::choose(3);
    for (int i = 0; i < U; ++i) {
      // 0: all keys share one bucket whatever the capacity; 1: two groups; 2: mostly distinct buckets
      if (pattern == 0)
        keyval[i] = base + 1 + i * 4096;
      else if (pattern == 1)
        keyval[i] = base + 1 + (i % 2) + (i / 2) * 4096;
      else
        keyval[i] = base + 1 + i + (i >= 5 ? 4096 : 0);
    }
    if (pattern == 3) {
      // up to 16 keys that collide in one of 128 buckets but split when the map grows to 256 buckets: three array
      // items + all ten extension items of the extension bucket, the next insert grows the map while extension
      // items are in use (no additional draws: older replay files stay valid)
      cap = 128;
      U = 12 + (U - 4);
      for (int i = 0; i < U; ++i) keyval[i] = base + 1 + i * 128;
    }
    nthreads = seq ? 0 : 1 + (int)vrt::choose(3);
    with_iter = c11 ? true : (vrt::choose(4) == 0);
    stable_from = with_iter && !seq ? U - 1 - (int)vrt::choose(2) : U;
    iter_from_find = vrt::choose(3) == 0;
    iter_key = (uint8_t)vrt::choose((uint32_t)U);
    int np = seq ? 6 + (int)vrt::choose(pattern == 3 ? 38 : 18) : (int)vrt::choose(pattern == 3 ? 30 : 15);
    nprefix = np;
    static const uint32_t wp[O_NK] = {0, 12, 3, 2, 2, 1, 0, 0, 0};
    for (int i = 0; i < np; ++i) {
      POp o;
      o.kind = (uint8_t)vrt::weighted(wp, O_NK);
      o.variant = (uint8_t)vrt::choose(3);
      o.key = (uint8_t)vrt::choose((uint32_t)U);
      prefix[i] = o;
    }
    static const uint32_t wu[O_NK] = {3, 6, 4, 3, 7, 1, 0, 0, 0};
    static const uint32_t wr[O_NK] = {2, 0, 0, 0, 10, 0, 0, 0, 0}; // pure reader
    for (int t = 0; t < MAXT; ++t) {
      bool reader = c11 && t == 0;
      for (int i = 0; i < MAXOPS; ++i) {
        POp o;
        o.kind = (uint8_t)vrt::weighted(reader ? wr : wu, O_NK);
        o.variant = (uint8_t)vrt::choose(3);
        o.key = (uint8_t)vrt::choose((uint32_t)(o.kind == O_TRYGET || o.kind == O_FIND ? U : stable_from));
        progs[t][i] = o;
      }
    }
    static const uint32_t wi[6] = {0, 9, 5, 2, 2, 1};
    for (int i = 0; i < 14; ++i) iprog[i] = (uint8_t)vrt::weighted(wi, 6);
    // last draw (older replay files read 0 = none): threads that run their whole program inside one region_guard
    region_mode = (int)vrt::choose(4);
    if (region_mode >= 2) vrt::label("threads_inside_region_guard");

    static const char* const kn[O_NK] = {"nop", "insert", "erase", "extract", "try_get_value", "find", "erase(it)", "yield", "scan"};
    if (vrt::want_desc()) {
      vrt::desc("initial capacity=%d keys=%d pattern=%d (", cap, U, pattern);
      for (int i = 0; i < U; ++i) vrt::desc("%s%d", i ? "," : "", keyval[i]);
      vrt::desc(") stable keys>=%d threads=%d iterator=%d(%s)%s\n  prefix:", stable_from, nthreads, (int)with_iter, iter_from_find ? "find" : "begin",
                region_mode == 2 ? " region_guard=all threads" : region_mode == 3 ? " region_guard=T1" : "");
      for (int i = 0; i < nprefix; ++i) vrt::desc(" %s/%d(%d)", kn[prefix[i].kind], prefix[i].variant, prefix[i].key);
      vrt::desc("\n");
      for (int t = 0; t < nthreads; ++t) {
        vrt::desc("  T%d:", t + 1);
        for (int i = 0; i < MAXOPS; ++i)
          if (progs[t][i].kind) vrt::desc(" %s/%d(%d)", kn[progs[t][i].kind], progs[t][i].variant, progs[t][i].key);
        vrt::desc("\n");
      }
      if (with_iter) {
        static const char* const in[6] = {"++", "++", "erase(it)", "deref2;++", "move", "reset"};
        vrt::desc("  iterator:");
        for (int i = 0; i < 10; ++i) vrt::desc(" %s", in[iprog[i]]);
        vrt::desc("\n");
      }
    }
    uint64_t ph = vh::hmix((uint64_t)cap * 16 + (uint64_t)U, (uint64_t)pattern * 64 + (uint64_t)nthreads * 4 + (uint64_t)with_iter);
    for (int i = 0; i < nprefix; ++i) ph = vh::hmix(ph, prefix[i].kind | (prefix[i].variant << 4) | (prefix[i].key << 8));
    for (int t = 0; t < nthreads; ++t)
      for (int i = 0; i < MAXOPS; ++i) ph = vh::hmix(ph, progs[t][i].kind | (progs[t][i].variant << 4) | (progs[t][i].key << 8) | (t << 12));
    if (with_iter)
      for (int i = 0; i < 10; ++i) ph = vh::hmix(ph, iprog[i]);
    vrt::fp(ph);

    m = new Map((std::size_t)cap);
    for (int k = stable_from; k < U; ++k) exec(POp{O_INSERT, 0, (uint8_t)k}, hist[MAXT + 1]);
    for (int i = 0; i < nprefix; ++i) exec(prefix[i], hist[MAXT + 1]);
    int stable_id[MAXK];
    for (int k = 0; k < MAXK; ++k) stable_id[k] = -1;
    for (auto& o : hist[MAXT + 1]) {
      if (o.kind == O_INSERT && o.ok && o.key >= stable_from) stable_id[o.key] = o.id;
      if ((o.kind == O_ERASE || o.kind == O_EXTRACT) && o.ok && o.key >= stable_from) stable_id[o.key] = -2;
    }
    uint64_t allocs0 = vrt::alloc_count(vrt::TAG_DEFAULT);

    vrt::concurrent_phase(true);
    {
      vh::Threads th;
      if (with_iter)
        th.start([this] {
          RegionScope<typename A::R> rg(region_mode == 2);
          iterator_session(hist[MAXT]);
        });
      for (int t = 0; t < nthreads; ++t)
        th.start([this, t] {
          RegionScope<typename A::R> rg(region_mode == 2 || (region_mode == 3 && t == 0));
          for (int i = 0; i < MAXOPS; ++i)
            if (progs[t][i].kind) {
              vrt::point();
              exec(progs[t][i], hist[t]);
            }
        });
      th.join_all();
    }
    vrt::concurrent_phase(false);
    bool grew = vrt::alloc_count(vrt::TAG_DEFAULT) > allocs0;

    if (with_iter && session_complete && session_from_begin) {
      for (int k = stable_from; k < U; ++k) {
        if (stable_id[k] < 0 || self_erased[k]) continue;
        bool seen = false;
        for (auto& y : yields)
          if (y.key == k && y.id == stable_id[k]) seen = true;
        if (!seen)
          vrt::fail("stable_element_skipped", "a complete traversal did not yield key %d (id %d) although it was in the map during the whole traversal", keyval[k],
                    stable_id[k]);
      }
      vrt::label("complete_traversal");
    }

    // final full iteration at quiescence
    VOp scan;
    scan.tid = vrt::self();
    scan.kind = O_SCAN;
    vrt::stamp(&scan.inv);
    {
      int n = 0;
      bool seenk[MAXK] = {};
      It it = m->begin();
      for (; it != m->end(); ++it) {
        auto kv = *it;
        int k = key_index(KT<K>::back(kv.first));
        if (seenk[k]) vrt::fail("final_scan", "final iteration yields key %d twice", keyval[k]);
        seenk[k] = true;
        scan.scan_key[n] = (uint8_t)k;
        scan.scan_id[n] = VTT::id_of(kv.second);
        n++;
      }
      scan.scan_n = (uint8_t)n;
    }
    vrt::stamp(&scan.resp);

    // every bucket lock must be free again: one emplace+erase (or a lookup) per key; a locked bucket makes this hang.
    // Executed after the final iteration and checked directly against it (not part of the 64-operation history).
    for (int k = 0; k < U; ++k) {
      K key = KT<K>::make(keyval[k]);
      bool in_scan = false;
      for (int i = 0; i < scan.scan_n; ++i) in_scan |= scan.scan_key[i] == k;
      vrt::op_begin(0);
      bool present;
      {
        Acc acc;
        present = m->try_get_value(key, acc);
      }
      vrt::op_end();
      if (present != in_scan) vrt::fail("probe_mismatch", "try_get_value(%d) says %s but the final iteration %s the key", keyval[k], present ? "present" : "absent", in_scan ? "yielded" : "did not yield");
      if (!present) {
        vh::hvec<VOp> scratch;
        exec(POp{O_INSERT, 0, (uint8_t)k}, scratch);
        exec(POp{O_ERASE, 0, (uint8_t)k}, scratch);
        if (scratch.size() != 2 || !scratch[0].ok || !scratch[1].ok) vrt::fail("probe_mismatch", "emplace+erase of the absent key %d did not both succeed", keyval[k]);
      }
    }

    vh::hvec<VOp> all;
    for (int t = 0; t < MAXT + 2; ++t)
      for (auto& o : hist[t]) all.push_back(o);
    all.push_back(scan);
    VSpec spec;
    spec.weak = vrt::weak_mode();
    for (auto& o : all)
      if (o.kind == O_INSERT && o.id >= 0 && o.id < 256) spec.id_key[o.id] = (int16_t)(o.key + 1);
    VSpec::State init{};
    lin::Checker<VSpec> chk(spec, all);
    if (spec.weak) {
      // an "absent" verdict for key k is wrong if some successful insertion of k happens-before it and every successful
      // removal of k happens-before that insertion (nothing can have removed the element again)
      for (size_t x = 0; x < all.size(); ++x) {
        const VOp& X = all[x];
        bool absent = ((X.kind == O_TRYGET || X.kind == O_FIND || X.kind == O_ERASE || X.kind == O_EXTRACT) && !X.ok) || (X.kind == O_INSERT && X.ok);
        if (!absent) continue;
        for (size_t i = 0; i < all.size(); ++i) {
          const VOp& I = all[i];
          if (i == x || I.kind != O_INSERT || !I.ok || I.key != X.key || !(chk.pred[x] & (1ull << i))) continue;
          bool removable = false;
          for (size_t e = 0; e < all.size() && !removable; ++e) {
            const VOp& E = all[e];
            bool removal = ((E.kind == O_ERASE || E.kind == O_EXTRACT) && E.ok) || E.kind == O_ERASE_IT;
            if (removal && E.key == X.key && !(chk.pred[i] & (1ull << e))) removable = true;
          }
          if (!removable)
            vrt::fail("absent_after_insert_happened_before", "%s of key %d reported 'absent' although the insertion with id %d happens-before it and no removal can follow that insertion",
                      kn[X.kind], keyval[X.key], I.id);
        }
      }
    }
    // non-triviality: a lock-free read overlapped a successful removal of a key in the same bucket group
    for (size_t i = 0; i < all.size(); ++i)
      if (all[i].kind == O_TRYGET)
        for (size_t j = 0; j < all.size(); ++j)
          if (j != i && (((all[j].kind == O_ERASE || all[j].kind == O_EXTRACT) && all[j].ok) || all[j].kind == O_ERASE_IT) && !(chk.pred[i] & (1ull << j)) &&
              !(chk.pred[j] & (1ull << i)))
            reader_overlapped_removal = true;
    if (!chk.run(init)) {
      vrt::desc("history (not linearizable; pred = bit set of the operations that precede):\n");
      size_t oi = 0;
      for (auto& o : all) {
        vrt::desc("  #%zu t%d %s/%d(key %d) -> %s obs=%d id=%d [%lu,%lu] pred=%lx", oi, o.tid, kn[o.kind], o.variant, keyval[o.key], o.ok ? "true" : "false", o.has_obs ? o.obs : -1,
                  o.id, (unsigned long)o.inv.step, (unsigned long)o.resp.step, (unsigned long)chk.pred[oi]);
        oi++;
        if (o.kind == O_SCAN)
          for (int i = 0; i < o.scan_n; ++i) vrt::desc(" (%d,%d)", keyval[o.scan_key[i]], o.scan_id[i]);
        vrt::desc("\n");
      }
      vrt::fail("not_linearizable", "history of %zu operations (incl. %zu iterator yields and the final iteration) has no linearization w.r.t. the map specification (longest consistent prefix: %zu)",
                all.size(), yields.size(), chk.deepest_order.size());
    }
    if (chk.capped) vrt::label("lin_search_capped");

    delete m;
    // managed values: every value object was destroyed exactly once - after a flush of the value reclaimer this
    // would be exact; here we check what must hold immediately: nothing destroyed twice (checked in ~VNode) and
    // no value object of a key that is still... (the map is gone, so everything is retired or destroyed)
    uint64_t hh = 0;
    for (auto& o : all) hh = vh::hmix(hh, (uint64_t)o.kind + 16 * o.key + 256 * (uint64_t)o.ok + 512 * (uint64_t)(o.obs & 0xff));
    vrt::fp(hh);
    if (grew) vrt::label("grew_in_concurrent_part");
    if (reader_overlapped_removal) vrt::label("try_get_value_overlapped_removal");
    if (cap >= 128) vrt::label("extension_buckets_available");
    if (c11) {
      if (with_iter && yields.size() >= 1 && (seq || reader_overlapped_removal || nthreads > 0)) {
        bool erased = false;
        for (int k = 0; k < MAXK; ++k) erased |= self_erased[k];
        if (erased) vrt::nontrivial();
      }
    } else if (seq) {
      if (all.size() >= 12) vrt::nontrivial();
    } else if (reader_overlapped_removal || grew)
      vrt::nontrivial();
  }
};

template <class A>
void run_v() {
  vrt::TagScope ts(vrt::TAG_HARNESS);
  auto* h = new VHarness<A>();
  vrt::set_alloc_tag(vrt::TAG_DEFAULT);
  h->run();
}

// ---- menus ---------------------------------------------------------------------------------------------------
using HPd = rec::hazard_pointer<>::with<policy::allocation_strategy<rec::hp_allocation::dynamic_strategy<3, 0, 0>>>;
using HEd = rec::hazard_eras<>::with<policy::allocation_strategy<rec::he_allocation::dynamic_strategy<3, 0, 0>>>;
using EBR0 = rec::generic_epoch_based<>::with<policy::scan_frequency<0>, policy::scan<rec::scan::all_threads>, policy::abandon<rec::abandon::always>,
                                              policy::region_extension<rec::region_extension::none>>;
using NEBR1 = rec::generic_epoch_based<>::with<policy::scan_frequency<1>, policy::scan<rec::scan::one_thread>, policy::abandon<rec::abandon::never>,
                                               policy::region_extension<rec::region_extension::eager>>;
using QSBR = rec::quiescent_state_based;
using STAMP = rec::stamp_it;

template <class R>
using M_II = VA<vyukov_hash_map<int, int, policy::reclaimer<R>>, int, int, R>;
template <class R>
using M_IM = VA<vyukov_hash_map<int, managed_ptr<VNode<R>, R>, policy::reclaimer<R>>, int, managed_ptr<VNode<R>, R>, R>;
template <class R>
using M_SM = VA<vyukov_hash_map<std::string, managed_ptr<VNode<R>, R>, policy::reclaimer<R>, policy::hash<SHash>>, std::string, managed_ptr<VNode<R>, R>, R>;
template <class R>
using M_IS = VA<vyukov_hash_map<int, std::string, policy::reclaimer<R>>, int, std::string, R>;
template <class R>
using M_SI = VA<vyukov_hash_map<std::string, int, policy::reclaimer<R>, policy::hash<SHash>>, std::string, int, R>;
template <class R, class VR>
using M_SS = VA<vyukov_hash_map<std::string, std::string, policy::reclaimer<R>, policy::hash<SHash>, policy::value_reclaimer<VR>>, std::string, std::string, R>;
template <class R>
using M_SSc = VA<vyukov_hash_map<std::string, std::string, policy::reclaimer<R>, policy::hash<SHashConst>>, std::string, std::string, R>;

#define VC(name, A, tags) vrt::Cfg{name, &run_v<A>, tags}
#define COMMA ,

const vrt::Cfg cfgs[] = {
#if VHIST_GROUP == 0
  VC("int_int_hp", M_II<HPd>, "quick,trivial"),
  VC("int_int_ebr", M_II<EBR0>, "quick,trivial"),
  VC("int_int_stamp", M_II<STAMP>, "trivial"),
  VC("int_int_qsbr", M_II<QSBR>, "trivial"),
  VC("int_int_he", M_II<HEd>, "trivial"),
#elif VHIST_GROUP == 1
  VC("int_managed_hp", M_IM<HPd>, "quick,managed"),
  VC("int_managed_ebr", M_IM<EBR0>, "quick,managed"),
  VC("str_managed_stamp", M_SM<STAMP>, "quick,managed"),
  VC("str_managed_he", M_SM<HEd>, "managed"),
#elif VHIST_GROUP == 2
  VC("int_str_hp", M_IS<HPd>, "quick,node"),
  VC("int_str_nebr", M_IS<NEBR1>, "quick,node"),
  VC("str_int_ebr", M_SI<EBR0>, "quick,node"),
  VC("str_int_qsbr", M_SI<QSBR>, "node"),
#elif VHIST_GROUP == 3
  VC("str_str_stamp_vr_hp", M_SS<STAMP COMMA HPd>, "quick,node"),
  VC("str_str_hp_vr_hp", M_SS<HPd COMMA HPd>, "quick,node"),
  VC("str_str_consthash_ebr", M_SSc<EBR0>, "quick,node"),
#else
  #error "VHIST_GROUP"
#endif
};

#define STR2(x) #x
#define STR(x) STR2(x)
const vrt::Harness harness{"vhist" STR(VHIST_GROUP), cfgs, (int)(sizeof cfgs / sizeof cfgs[0])};
} // namespace

extern "C" const vrt::Harness* vrt_harness() {
  return &harness;
}
