// litmus — self-test of the weak memory model of engine/vrt.cpp: classic litmus shapes.  Outcomes that C++11
// forbids must never be produced (soundness of every violation the weak tier reports); outcomes that C++11 allows
// and that the model is supposed to produce are counted (effectiveness).  Not tied to a property; run by
// `vcheck.py --selftest`.
#include "prelude_begin.hpp"
namespace lit {
using std::atomic;
using std::memory_order;
struct Vars {
  atomic<int> x{0}, y{0}, z{0};
  int data = 0;
};
} // namespace lit
#include "prelude_end.hpp"

#include "hcommon.hpp"

namespace {
using lit::Vars;
constexpr auto rlx = std::memory_order_relaxed;
constexpr auto acq = std::memory_order_acquire;
constexpr auto rel = std::memory_order_release;
constexpr auto sc = std::memory_order_seq_cst;

inline void fence(std::memory_order mo) { vrt_fence((int)mo); }

template <class F1, class F2>
void two(F1 f1, F2 f2) {
  vh::Threads th;
  th.start(f1);
  th.start(f2);
  th.join_all();
}

// MP with release/acquire: r1 == 1 => data visible (and no race)
void mp_relacq() {
  auto* v = new Vars();
  int r1 = -1, r2 = -1;
  two(
    [&] {
      v->data = 42;
      v->x.store(1, rel);
    },
    [&] {
      r1 = v->x.load(acq);
      if (r1 == 1) r2 = v->data;
    });
  if (r1 == 1 && r2 != 42) vrt::fail("litmus_forbidden", "MP rel/acq: flag seen but data not");
  if (r1 == 0) vrt::label("mp:flag_not_seen");
  vrt::nontrivial();
}
// MP with relaxed flag: reading data after seeing the flag is a data race
void mp_relaxed_race() {
  auto* v = new Vars();
  two(
    [&] {
      v->data = 42;
      v->x.store(1, rlx);
    },
    [&] {
      if (v->x.load(rlx) == 1) {
        vrt::label("mp_relaxed:flag_seen");
        volatile int r = v->data; // must be reported as a race by the detector
        (void)r;
        vrt::fail("litmus_missed_race", "MP relaxed: the racy read of data was not reported");
      }
    });
  vrt::nontrivial();
}
// MP with fences: store data; fence(release); store x relaxed  ||  load x relaxed; fence(acquire); read data
void mp_fences() {
  auto* v = new Vars();
  int r1 = -1, r2 = -1;
  two(
    [&] {
      v->data = 42;
      fence(rel);
      v->x.store(1, rlx);
    },
    [&] {
      r1 = v->x.load(rlx);
      fence(acq);
      if (r1 == 1) r2 = v->data;
    });
  if (r1 == 1 && r2 != 42) vrt::fail("litmus_forbidden", "MP fences: flag seen but data not");
  vrt::nontrivial();
}
// SB: relaxed => r1 == 0 && r2 == 0 allowed; with seq_cst forbidden
void sb_relaxed() {
  auto* v = new Vars();
  int r1 = -1, r2 = -1;
  two(
    [&] {
      v->x.store(1, rlx);
      r1 = v->y.load(rlx);
    },
    [&] {
      v->y.store(1, rlx);
      r2 = v->x.load(rlx);
    });
  if (r1 == 0 && r2 == 0) vrt::label("sb_relaxed:both_zero(weak_outcome)");
  vrt::nontrivial();
}
void sb_seqcst() {
  auto* v = new Vars();
  int r1 = -1, r2 = -1;
  two(
    [&] {
      v->x.store(1, sc);
      r1 = v->y.load(sc);
    },
    [&] {
      v->y.store(1, sc);
      r2 = v->x.load(sc);
    });
  if (r1 == 0 && r2 == 0) vrt::fail("litmus_forbidden", "SB seq_cst: both loads returned 0");
  vrt::nontrivial();
}
void sb_fences() {
  auto* v = new Vars();
  int r1 = -1, r2 = -1;
  two(
    [&] {
      v->x.store(1, rlx);
      fence(sc);
      r1 = v->y.load(rlx);
    },
    [&] {
      v->y.store(1, rlx);
      fence(sc);
      r2 = v->x.load(rlx);
    });
  if (r1 == 0 && r2 == 0) vrt::fail("litmus_forbidden", "SB with seq_cst fences: both loads returned 0");
  vrt::nontrivial();
}
// CoRR: two reads of the same location by one thread never go backwards
void corr() {
  auto* v = new Vars();
  int r1 = -1, r2 = -1;
  two(
    [&] {
      v->x.store(1, rlx);
      v->x.store(2, rlx);
    },
    [&] {
      r1 = v->x.load(rlx);
      r2 = v->x.load(rlx);
    });
  if (r2 < r1) vrt::fail("litmus_forbidden", "CoRR: second read older than the first (%d then %d)", r1, r2);
  if (r1 == 0 && r2 == 0) vrt::label("corr:both_initial");
  vrt::nontrivial();
}
// CoRR across threads through happens-before
void corr_hb() {
  auto* v = new Vars();
  int r1 = -1, r2 = -1, f = -1;
  vh::Threads th;
  th.start([&] {
    v->x.store(1, rlx);
    v->x.store(2, rlx);
  });
  th.start([&] {
    r1 = v->x.load(rlx);
    v->y.store(1, rel);
  });
  th.start([&] {
    f = v->y.load(acq);
    r2 = v->x.load(rlx);
  });
  th.join_all();
  if (f == 1 && r2 < r1) vrt::fail("litmus_forbidden", "CoRR+hb: read %d after a read of %d that happens-before it", r2, r1);
  vrt::nontrivial();
}
// release sequence through an RMW of another thread
void release_sequence() {
  auto* v = new Vars();
  int r1 = -1, r2 = -1;
  vh::Threads th;
  th.start([&] {
    v->data = 7;
    v->x.store(1, rel);
  });
  th.start([&] { v->x.fetch_add(10, rlx); });
  th.start([&] {
    r1 = v->x.load(acq);
    if (r1 == 11) r2 = v->data; // reads the RMW that continues the release sequence headed by store(1, release)
  });
  th.join_all();
  if (r1 == 11 && r2 != 7) vrt::fail("litmus_forbidden", "release sequence: data not visible");
  vrt::nontrivial();
}
// IRIW with seq_cst: the two readers must agree on the order of the writes
void iriw_sc() {
  auto* v = new Vars();
  int a = -1, b = -1, c = -1, d = -1;
  vh::Threads th;
  th.start([&] { v->x.store(1, sc); });
  th.start([&] { v->y.store(1, sc); });
  th.start([&] {
    a = v->x.load(sc);
    b = v->y.load(sc);
  });
  th.start([&] {
    c = v->y.load(sc);
    d = v->x.load(sc);
  });
  th.join_all();
  if (a == 1 && b == 0 && c == 1 && d == 0) vrt::fail("litmus_forbidden", "IRIW seq_cst: readers disagree on the order of the writes");
  vrt::nontrivial();
}
// write-to-read causality (WRC) with release/acquire
void wrc() {
  auto* v = new Vars();
  int r1 = -1, r2 = -1, r3 = -1;
  vh::Threads th;
  th.start([&] { v->x.store(1, rel); });
  th.start([&] {
    r1 = v->x.load(acq);
    v->y.store(1, rel);
  });
  th.start([&] {
    r2 = v->y.load(acq);
    r3 = v->x.load(rlx);
  });
  th.join_all();
  if (r1 == 1 && r2 == 1 && r3 == 0) vrt::fail("litmus_forbidden", "WRC: causality violated");
  vrt::nontrivial();
}
// a CAS always reads the last value in modification order: two increments are never lost
void rmw_atomicity() {
  auto* v = new Vars();
  two(
    [&] {
      int e = v->x.load(rlx);
      while (!v->x.compare_exchange_weak(e, e + 1, rlx, rlx)) {
      }
    },
    [&] { v->x.fetch_add(1, rlx); });
  if (v->x.load(rlx) != 2) vrt::fail("litmus_forbidden", "RMW atomicity: lost update");
  vrt::nontrivial();
}
// stale read within the window: a relaxed reader polling a flag may see the old value, but eventually the new one
void eventual_visibility() {
  auto* v = new Vars();
  int seen_old = 0;
  two([&] { v->x.store(1, rlx); },
      [&] {
        for (int i = 0; i < 200; ++i) {
          if (v->x.load(rlx) == 1) return;
          seen_old++;
        }
        vrt::fail("litmus_forbidden", "a store did not become visible within 200 polls");
      });
  if (seen_old > 0) vrt::label("eventual:saw_old_value_first");
  vrt::nontrivial();
}

// long histories (more messages per location than the model keeps): coherence and happens-before visibility must
// survive the pruning of old messages, for every staleness window
void corr_long() {
  auto* v = new Vars();
  int bad = 0, last = 0;
  two(
    [&] {
      for (int i = 1; i <= 60; ++i) v->x.store(i, rlx);
    },
    [&] {
      for (int i = 0; i < 60; ++i) {
        int r = v->x.load(rlx);
        if (r < last) bad++;
        last = r;
      }
    });
  if (bad) vrt::fail("litmus_forbidden", "CoRR (60 writes): a later read returned an older value %d times", bad);
  vrt::nontrivial();
}
void mp_long() {
  auto* v = new Vars();
  int r1 = -1, r2 = -1, r3 = -1;
  two(
    [&] {
      for (int i = 1; i <= 40; ++i) v->y.store(i, rlx);
      v->data = 42;
      v->x.store(1, rel);
      for (int i = 41; i <= 80; ++i) v->y.store(i, rlx);
    },
    [&] {
      r1 = v->x.load(acq);
      if (r1 == 1) {
        r2 = v->data;
        r3 = v->y.load(rlx);
      }
    });
  if (r1 == 1 && r2 != 42) vrt::fail("litmus_forbidden", "MP (long): flag seen but data not");
  if (r1 == 1 && r3 < 40) vrt::fail("litmus_forbidden", "MP (long): flag seen but y=%d is older than the 40 writes that happen-before the flag", r3);
  vrt::nontrivial();
}
// Dekker with seq_cst fences after a long run of unrelated writes by both threads
void sb_fences_long() {
  auto* v = new Vars();
  int r1 = -1, r2 = -1;
  two(
    [&] {
      for (int i = 1; i <= 30; ++i) v->z.store(i, rlx);
      v->x.store(1, rlx);
      fence(sc);
      r1 = v->y.load(rlx);
    },
    [&] {
      for (int i = 31; i <= 60; ++i) v->z.store(i, rlx);
      v->y.store(1, rlx);
      fence(sc);
      r2 = v->x.load(rlx);
    });
  if (r1 == 0 && r2 == 0) vrt::fail("litmus_forbidden", "SB with seq_cst fences (long): both loads returned 0");
  vrt::nontrivial();
}
// hazard-pointer handshake: reader publishes a hazard (store; seq_cst fence; re-read pointer), reclaimer unlinks
// (store; seq_cst fence; read hazard). Either the reader sees the unlink or the reclaimer sees the hazard.
void hp_handshake() {
  auto* v = new Vars();
  int hz_seen = -1, ptr_seen = -1;
  v->x.store(1, rlx); // pointer: 1 = linked
  two(
    [&] {
      v->y.store(1, rlx); // hazard
      fence(sc);
      ptr_seen = v->x.load(acq);
    },
    [&] {
      v->x.store(0, rel); // unlink
      fence(sc);
      hz_seen = v->y.load(rlx);
    });
  if (ptr_seen == 1 && hz_seen == 0) vrt::fail("litmus_forbidden", "hazard handshake: reader validated the pointer and the reclaimer missed the hazard");
  vrt::nontrivial();
}

const vrt::Cfg cfgs[] = {
  vrt::Cfg{"mp_relacq", &mp_relacq, "quick"},
  vrt::Cfg{"mp_relaxed_race", &mp_relaxed_race, "quick"},
  vrt::Cfg{"mp_fences", &mp_fences, "quick"},
  vrt::Cfg{"sb_relaxed", &sb_relaxed, "quick"},
  vrt::Cfg{"sb_seqcst", &sb_seqcst, "quick"},
  vrt::Cfg{"sb_fences", &sb_fences, "quick"},
  vrt::Cfg{"corr", &corr, "quick"},
  vrt::Cfg{"corr_hb", &corr_hb, "quick"},
  vrt::Cfg{"release_sequence", &release_sequence, "quick"},
  vrt::Cfg{"iriw_sc", &iriw_sc, "quick"},
  vrt::Cfg{"wrc", &wrc, "quick"},
  vrt::Cfg{"rmw_atomicity", &rmw_atomicity, "quick"},
  vrt::Cfg{"eventual_visibility", &eventual_visibility, "quick"},
  vrt::Cfg{"corr_long", &corr_long, "quick"},
  vrt::Cfg{"mp_long", &mp_long, "quick"},
  vrt::Cfg{"sb_fences_long", &sb_fences_long, "quick"},
  vrt::Cfg{"hp_handshake", &hp_handshake, "quick"},
};
const vrt::Harness harness{"litmus", cfgs, (int)(sizeof cfgs / sizeof cfgs[0])};
} // namespace

extern "C" const vrt::Harness* vrt_harness() {
  return &harness;
}
