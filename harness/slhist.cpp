// slhist — seqlock (C14): load returns exactly some stored value, never torn or truncated; store/update atomic.
#include "prelude_begin.hpp"

#include <xenium/seqlock.hpp>

#include "prelude_end.hpp"

#include "hcommon.hpp"
#include "lin.hpp"

using namespace xenium;

namespace {

constexpr int MAXT = 5;
constexpr int MAXOPS = 6;

// byte i of the value with number v: every byte depends on v, bytes 0..3 hold v itself
inline uint8_t byte_of(uint32_t v, size_t i) {
  if (i < 4) return (uint8_t)(v >> (8 * i));
  return (uint8_t)(v * 131u + (uint32_t)i * 29u + 7u);
}
template <class T>
T make_value(uint32_t v) {
  T t;
  auto* p = reinterpret_cast<uint8_t*>(&t);
  for (size_t i = 0; i < sizeof(T); ++i) p[i] = byte_of(v, i);
  return t;
}
template <class T>
uint32_t decode_value(const T& t, const char* what) {
  const auto* p = reinterpret_cast<const uint8_t*>(&t);
  uint32_t v = (uint32_t)p[0] | ((uint32_t)p[1] << 8) | ((uint32_t)p[2] << 16) | ((uint32_t)p[3] << 24);
  for (size_t i = 0; i < sizeof(T); ++i)
    if (p[i] != byte_of(v, i))
      vrt::fail("torn_or_truncated_value", "%s returned a value whose byte %zu of %zu is 0x%02x; the value numbered %u (bytes 0-3) has 0x%02x there", what, i, sizeof(T),
                p[i], v, byte_of(v, i));
  return v;
}

struct __attribute__((packed)) Packed13 {
  uint8_t a;
  uint32_t b;
  uint64_t c;
};
static_assert(sizeof(Packed13) == 13 && alignof(Packed13) == 1, "");

enum { S_NOP = 0, S_STORE, S_UPDATE, S_LOAD };

struct SOp : lin::OpBase {
  uint8_t kind = 0;
  uint32_t v = 0, old = 0;
};
struct SSpec {
  using Op = SOp;
  struct State {
    uint32_t v = 0;
  };
  uint64_t hash(const State& s) const { return (uint64_t)s.v * 7 + 3; }
  bool equal(const State& a, const State& b) const { return a.v == b.v; }
  int alternatives(const Op&) const { return 1; }
  bool apply(State& s, const Op& o, int = 0) const {
    switch (o.kind) {
    case S_STORE: s.v = o.v; return true;
    case S_UPDATE:
      if (s.v != o.old) return false; // the functor must have seen the value it replaces
      s.v = o.v;
      return true;
    default: return s.v == o.v;
    }
  }
};

template <class T, unsigned SLOTS>
struct SLHarness {
  using SL = seqlock<T, policy::slots<SLOTS>>;
  SL* sl = nullptr;
  uint8_t progs[MAXT][MAXOPS];
  int nwriters = 1, nreaders = 1;
  vh::hvec<SOp> hist[MAXT];
  uint32_t next_v = 1000;

  void run() {
    nwriters = 1 + (int)vrt::choose(2);
    nreaders = 1 + (int)vrt::choose(3);
    for (int t = 0; t < MAXT; ++t)
      for (int i = 0; i < MAXOPS; ++i) {
        uint32_t c = vrt::choose(4);
        progs[t][i] = (uint8_t)(c == 0 ? S_NOP : t < nwriters ? (c == 3 ? S_UPDATE : S_STORE) : S_LOAD);
      }
    uint64_t ph = (uint64_t)nwriters * 8 + (uint64_t)nreaders;
    for (int t = 0; t < nwriters + nreaders; ++t)
      for (int i = 0; i < MAXOPS; ++i) ph = vh::hmix(ph, progs[t][i] + 4 * t);
    vrt::fp(ph);
    if (vrt::want_desc()) {
      vrt::desc("sizeof(T)=%zu alignof(T)=%zu slots=%u writers=%d readers=%d\n", sizeof(T), alignof(T), SLOTS, nwriters, nreaders);
      for (int t = 0; t < nwriters + nreaders; ++t) {
        vrt::desc("  %s%d:", t < nwriters ? "W" : "R", t);
        for (int i = 0; i < MAXOPS; ++i)
          if (progs[t][i]) vrt::desc(" %s", progs[t][i] == S_STORE ? "store" : progs[t][i] == S_UPDATE ? "update" : "load");
        vrt::desc("\n");
      }
    }
    sl = new SL(make_value<T>(0));
    // sequential round trip first
    {
      T x = sl->load();
      if (decode_value(x, "load of the initial value") != 0) vrt::fail("wrong_value", "load after construction does not return the initial value");
      sl->store(make_value<T>(77));
      T y = sl->load();
      if (decode_value(y, "load after store") != 77) vrt::fail("wrong_value", "load after store(77) returned value %u", decode_value(y, "load"));
      sl->store(make_value<T>(0));
    }
    bool load_overlapped_write = false;
    int active_writes = 0;
    vrt::concurrent_phase(true);
    {
      vh::Threads th;
      for (int t = 0; t < nwriters + nreaders; ++t)
        th.start([this, t, &active_writes, &load_overlapped_write] {
          for (int i = 0; i < MAXOPS; ++i) {
            if (!progs[t][i]) continue;
            vrt::point();
            SOp r;
            r.tid = vrt::self();
            r.kind = progs[t][i];
            if (r.kind == S_STORE) {
              r.v = next_v++;
              T val = make_value<T>(r.v);
              vrt::op_begin(0);
              vrt::stamp(&r.inv);
              active_writes++;
              sl->store(val);
              active_writes--;
              vrt::stamp(&r.resp);
              vrt::op_end();
            } else if (r.kind == S_UPDATE) {
              uint32_t nv = next_v++;
              r.v = nv;
              uint32_t seen = 0;
              vrt::op_begin(0);
              vrt::stamp(&r.inv);
              active_writes++;
              sl->update([&](T& cur) {
                seen = decode_value(cur, "update functor argument");
                cur = make_value<T>(nv);
              });
              active_writes--;
              vrt::stamp(&r.resp);
              vrt::op_end();
              r.old = seen;
            } else {
              vrt::op_begin(SLOTS > 1);
              vrt::stamp(&r.inv);
              if (active_writes > 0) load_overlapped_write = true;
              T x = sl->load();
              if (active_writes > 0) load_overlapped_write = true;
              vrt::stamp(&r.resp);
              vrt::op_end();
              r.v = decode_value(x, "load");
            }
            hist[t].push_back(r);
          }
        });
      th.join_all();
    }
    vrt::concurrent_phase(false);
    SOp fin;
    fin.tid = vrt::self();
    fin.kind = S_LOAD;
    vrt::stamp(&fin.inv);
    T x = sl->load();
    vrt::stamp(&fin.resp);
    fin.v = decode_value(x, "final load");
    vh::hvec<SOp> all;
    for (int t = 0; t < MAXT; ++t)
      for (auto& o : hist[t]) all.push_back(o);
    all.push_back(fin);
    SSpec spec;
    SSpec::State init;
    lin::Checker<SSpec> chk(spec, all);
    if (!chk.run(init)) {
      vrt::desc("pred:");
      for (size_t i = 0; i < all.size(); ++i) vrt::desc(" %lx", (unsigned long)chk.pred[i]);
      vrt::desc(" nodes=%lu memo=%zu\n", (unsigned long)chk.nodes, chk.memo.size());
      vrt::desc("history (not linearizable):\n");
      for (auto& o : all)
        vrt::desc("  t%d %s v=%u old=%u [%lu,%lu] inv.vc[%u %u %u %u %u %u] resp.vc[%u %u %u %u %u %u]\n", o.tid, o.kind == S_STORE ? "store" : o.kind == S_UPDATE ? "update" : "load ->", o.v, o.old,
                  (unsigned long)o.inv.step, (unsigned long)o.resp.step, o.inv.vc[0], o.inv.vc[1], o.inv.vc[2], o.inv.vc[3], o.inv.vc[4], o.inv.vc[5], o.resp.vc[0],
                  o.resp.vc[1], o.resp.vc[2], o.resp.vc[3], o.resp.vc[4], o.resp.vc[5]);
      vrt::fail("not_linearizable", "history of %zu store/update/load operations has no linearization w.r.t. an atomic register (longest consistent prefix: %zu)",
                all.size(), chk.deepest_order.size());
    }
    delete sl;
    uint64_t hh = 0;
    for (auto& o : all) hh = vh::hmix(hh, (uint64_t)o.kind + 4 * (uint64_t)o.v);
    vrt::fp(hh);
    if (load_overlapped_write) {
      vrt::label("load_overlapped_write");
      vrt::nontrivial();
    }
  }
};

template <class T, unsigned SLOTS>
void run_sl() {
  vrt::TagScope ts(vrt::TAG_HARNESS);
  auto* h = new SLHarness<T, SLOTS>();
  vrt::set_alloc_tag(vrt::TAG_DEFAULT);
  h->run();
}

template <size_t N>
using B = std::array<uint8_t, N>;
#define SC(name, T, S, tags) vrt::Cfg{name, &run_sl<T, S>, tags}
#define COMMA ,
const vrt::Cfg cfgs[] = {
  SC("bytes9_s1", B<9>, 1, "quick"),
  SC("bytes12_s2", B<12>, 2, "quick"),
  SC("bytes16_s3", B<16>, 3, "quick"),
  SC("bytes20_s4", B<20>, 4, "quick"),
  SC("bytes24_s8", B<24>, 8, "quick"),
  SC("bytes33_s2", B<33>, 2, "quick"),
  SC("u16x5_s1", std::array<uint16_t COMMA 5>, 1, "quick"),
  SC("u32x3_s2", std::array<uint32_t COMMA 3>, 2, "quick"),
  SC("u64x2_s1", std::array<uint64_t COMMA 2>, 1, "quick"),
  SC("u64x3_s3", std::array<uint64_t COMMA 3>, 3, "quick"),
  SC("u64x4_s8", std::array<uint64_t COMMA 4>, 8, ""),
  SC("packed13_s4", Packed13, 4, "quick"),
  SC("bytes12_s1", B<12>, 1, ""),
  SC("u32x3_s8", std::array<uint32_t COMMA 3>, 8, ""),
};
const vrt::Harness harness{"slhist", cfgs, (int)(sizeof cfgs / sizeof cfgs[0])};
} // namespace

extern "C" const vrt::Harness* vrt_harness() {
  return &harness;
}
