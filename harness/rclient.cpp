// rclient — protocol-conforming reclaimer client (C01, C02, C17; weak tier of C03; solo tier of C16).
// Shared concurrent_ptr cells; threads publish / unlink+reclaim / acquire / acquire_if_equal / use /
// copy / move / swap / reset / region enter+leave; several thread generations.
#include "prelude_begin.hpp"

#include <xenium/reclamation/generic_epoch_based.hpp>
#include <xenium/reclamation/hazard_eras.hpp>
#include <xenium/reclamation/hazard_pointer.hpp>
#include <xenium/reclamation/lock_free_ref_count.hpp>
#include <xenium/reclamation/quiescent_state_based.hpp>
#include <xenium/reclamation/stamp_it.hpp>

#include "prelude_end.hpp"

#include "hcommon.hpp"

using namespace xenium;
namespace rec = xenium::reclamation;

namespace {

constexpr int MAXN = 512;  // nodes per case
constexpr int MAXG = 4;    // guard variables per thread
constexpr int MAXTH = 16;  // thread programs per case (one extra slot for C17's phase 2)
constexpr int MAXOPS = 10; // operations per thread

enum OpKind : uint8_t {
  OP_NOP, // first: the all-zero choice sequence is the empty program (shrinking target)
  OP_PUBLISH,
  OP_UNLINK,
  OP_ACQUIRE,
  OP_ACQ_IF_EQ,
  OP_LOAD,
  OP_USE,
  OP_COPY,
  OP_MOVE,
  OP_SWAP,
  OP_RESET,
  OP_COPYCTOR,
  OP_FROM_MARKED,
  OP_REGION_ENTER,
  OP_REGION_LEAVE,
  OP_SELF_ASSIGN,
  OP_MOVECTOR, // appended last: replay files store the index chosen, so earlier kinds keep their meaning
  OP_REGION_CYCLES, // 2/4/6 empty region_guard scopes in a row (quiescent states / epoch steps): long epoch chains in short programs
  OP_NKINDS
};
const char* const op_names[OP_NKINDS] = {"nop", "publish",  "unlink", "acquire", "acquire_if_equal", "load",         "use",          "copy",       "move",
                                         "swap",     "reset",  "copyctor", "guard_from_marked", "region_enter", "region_leave", "self_assign", "movector",
                                         "region_cycles"};

struct Op {
  uint8_t kind, a, b, c;
};

struct NodeSt {
  uint8_t allocated, retired, destroyed, dummy;
  int8_t retired_by, destroyed_by;
  int8_t retired_gen;
  int8_t pub_cell;      // cell the node was published to (-1: never)
  uint64_t destroyed_at;
  uint64_t pub_inv;     // stamp taken before the publishing operation started
  uint64_t repl_resp;   // stamp taken after the operation that replaced it returned (0: still published)
};

// registry: static storage of the harness (outside the arenas => neither scheduling point nor race-checked)
struct Registry {
  NodeSt nodes[MAXN];
  int n_nodes = 0;
  int guard[vrt::MAXT][MAXG + 2]; // node id + 1 registered for (thread, guard variable); 0 = none
  bool via_copy[vrt::MAXT][MAXG + 2]; // the registered protection was established by copying another guard
  bool in_guard_op[vrt::MAXT];
  bool thread_exited_with_pending = false;
  bool adopted_while_others_live = false;
  bool deleter_under_guard = false;
  bool switch_in_guard_op = false;
  int destroyed_count = 0, retired_count = 0, nested_retires = 0;
  int logical_thread[vrt::MAXT]; // which program a runtime thread executes
  bool program_done[MAXTH + 1];
  uint64_t hist = 0;
} R;

inline uint64_t canary_of(int id) {
  return vh::hmix((uint64_t)id, 0xC0FFEE);
}

void note_destroy(int id, int deleter_id, const char* how) {
  int me = vrt::self();
  if (id < 0 || id >= R.n_nodes || !R.nodes[id].allocated) vrt::fail("bad_destroy", "%s of an object with unknown id %d", how, id);
  NodeSt& s = R.nodes[id];
  if (deleter_id != id) vrt::fail("wrong_deleter", "object %d destroyed by the deleter that was passed for object %d", id, deleter_id);
  if (s.destroyed) vrt::fail("double_destroy", "object %d destroyed twice (%s), first by thread %d", id, how, s.destroyed_by);
  if (!s.retired) vrt::fail("destroy_unretired", "object %d destroyed (%s) although it was never passed to reclaim", id, how);
  for (int t = 0; t < vrt::MAXT; ++t)
    for (int g = 0; g < MAXG + 2; ++g)
      if (R.guard[t][g] == id + 1)
        vrt::fail(R.via_copy[t][g] ? "destroyed_while_guarded_by_copy" : "destroyed_while_guarded",
                  "object %d destroyed (%s) by thread %d while guard %d of thread %d protects it%s", id, how, me, g, t,
                  R.via_copy[t][g] ? " (a guard that was copied from another guard)" : "");
  for (int t = 0; t < vrt::MAXT; ++t) {
    if (t == me) continue;
    if (R.in_guard_op[t]) R.deleter_under_guard = true;
    for (int g = 0; g < MAXG + 2; ++g)
      if (R.guard[t][g]) R.deleter_under_guard = true;
  }
  s.destroyed = 1;
  s.destroyed_by = (int8_t)me;
  s.destroyed_at = vrt::now();
  if (!s.dummy) {
    R.destroyed_count++;
    R.hist = vh::hmix(R.hist, (uint64_t)id * 16 + (uint64_t)me);
    if (s.retired_by != me) vrt::label("destroyed_by_other_thread");
  }
}

template <class Rc, bool LFRC>
struct NodeT;

template <class Rc>
struct DelT {
  int32_t id = -1;
  void operator()(NodeT<Rc, false>* n) const;
};

template <class Rc>
struct NodeT<Rc, false> : Rc::template enable_concurrent_ptr<NodeT<Rc, false>, 1, DelT<Rc>> {
  int id;
  uint64_t canary;
  bool via_deleter = false;
  NodeT* child = nullptr; // --param nested_retire=1: an unpublished object that the deleter of this one retires
  explicit NodeT(int id_) : id(id_), canary(canary_of(id_)) {}
  ~NodeT() {
    if (!via_deleter) vrt::fail("destroy_without_deleter", "object %d destroyed without its deleter being invoked", id);
  }
};
void note_nested_retire(int id) {
  NodeSt& s = R.nodes[id];
  if (s.retired) vrt::fail("harness_error", "child %d retired twice", id);
  s.retired = 1;
  s.retired_by = (int8_t)vrt::self();
  R.retired_count++;
  R.nested_retires++;
}
template <class Rc>
void DelT<Rc>::operator()(NodeT<Rc, false>* n) const {
  note_destroy(n->id, id, "deleter");
  n->via_deleter = true;
  NodeT<Rc, false>* child = n->child;
  delete n;
  if (child) {
    // a deleter that retires another (unreachable) object, like the deleter of a tree node that retires its children
    using CP = typename Rc::template concurrent_ptr<NodeT<Rc, false>, 1>;
    const int cid = child->id;
    try {
      typename CP::guard_ptr g{typename CP::marked_ptr(child)};
      note_nested_retire(cid);
      g.reclaim(DelT<Rc>{cid});
    } catch (const std::exception&) {
      // no hazard pointer / era slot left on this thread: destroy it directly
      R.nodes[cid].retired = 1;
      R.nodes[cid].retired_by = (int8_t)vrt::self();
      R.retired_count++;
      DelT<Rc>{cid}(child);
    }
  }
}

template <class Rc>
struct NodeT<Rc, true> : Rc::template enable_concurrent_ptr<NodeT<Rc, true>, 1> {
  int id;
  uint64_t canary;
  explicit NodeT(int id_) : id(id_), canary(canary_of(id_)) {}
  ~NodeT() { note_destroy(id, id, "destructor"); }
};

template <class Rc, bool LFRC, int NG_>
struct Scheme {
  using R = Rc;
  static constexpr bool lfrc = LFRC;
  static constexpr int NG = NG_;
};

template <class S>
struct Client {
  using Rc = typename S::R;
  using Node = NodeT<Rc, S::lfrc>;
  using CPtr = typename Rc::template concurrent_ptr<Node, 1>;
  using MPtr = typename CPtr::marked_ptr;
  using GPtr = typename CPtr::guard_ptr;
  using RG = typename Rc::region_guard;
  static constexpr int NG = S::NG;

  CPtr cells[3];
  int ncells = 1;
  Op progs[MAXTH + 1][MAXOPS];
  int nops[MAXTH + 1];
  int nprog = 0;
  bool check_census = false;

  Node* alloc_node(bool dummy = false) {
    if (R.n_nodes >= MAXN) vrt::inconclusive("too_many_nodes");
    int id = R.n_nodes++;
    R.nodes[id].allocated = 1;
    R.nodes[id].dummy = dummy;
    R.nodes[id].pub_cell = -1;
    vrt::TagScope ts(vrt::TAG_CLIENT);
    Node* n = new Node(id);
    if constexpr (!S::lfrc) {
      // every third program object owns a child that only its deleter knows
      if (nested_retire && !dummy && !making_child && id % 3 == 0) {
        making_child = true;
        n->child = alloc_node();
        making_child = false;
      }
    }
    return n;
  }
  bool nested_retire = false, making_child = false;

  struct OpScope { // marks a guard operation in progress and detects a context switch inside it
    int me;
    uint64_t t0, s0;
    OpScope() : me(vrt::self()), t0(vrt::now()), s0(vrt::my_steps()) { R.in_guard_op[me] = true; }
    ~OpScope() {
      R.in_guard_op[me] = false;
      if (vrt::now() - t0 > vrt::my_steps() - s0) R.switch_in_guard_op = true;
    }
  };

  static void reg(int g, const GPtr& gp) {
    int me = vrt::self();
    R.guard[me][g] = gp.get() ? gp.get()->id + 1 : 0;
    R.via_copy[me][g] = false;
  }
  static void reg_copy(int g, const GPtr& gp, int from) { // protection copied or moved from guard variable `from`
    int me = vrt::self();
    bool c = from < 0 ? true : R.via_copy[me][from];
    reg(g, gp);
    R.via_copy[me][g] = c && gp.get() != nullptr;
  }
  static void swap_reg(int a, int b) {
    int me = vrt::self();
    std::swap(R.guard[me][a], R.guard[me][b]);
    std::swap(R.via_copy[me][a], R.via_copy[me][b]);
  }
  static void unreg(int g) { R.guard[vrt::self()][g] = 0; }

  void retire(GPtr& old, int gslot) {
    // `old` guards a node this thread has just unlinked with a successful CAS
    int id = old->id;
    NodeSt& s = R.nodes[id];
    if (s.retired) vrt::fail("harness_error", "node %d retired twice by the client", id);
    s.retired = 1;
    s.retired_by = (int8_t)vrt::self();
    if (!s.dummy) R.retired_count++;
    unreg(gslot);
    if constexpr (S::lfrc)
      old.reclaim();
    else
      old.reclaim(DelT<Rc>{id});
  }

  void publish(int c, bool null_it, int mark, Node* given = nullptr) {
    vrt::op_begin(1);
    Node* n = given ? given : null_it ? nullptr : alloc_node();
    vrt::Stamp st_inv;
    vrt::stamp(&st_inv);
    if (n) {
      R.nodes[n->id].pub_cell = (int8_t)c;
      R.nodes[n->id].pub_inv = st_inv.step;
    }
    int old_id = -1;
    const int new_id = n ? n->id : -1; // the node must not be touched any more once it is published
    GPtr old;
    {
      OpScope os;
      for (;;) {
        unreg(NG);
        old.acquire(cells[c], std::memory_order_acquire);
        reg(NG, old);
        MPtr exp = old;
        if (cells[c].compare_exchange_strong(exp, MPtr(n, (uintptr_t)mark), std::memory_order_acq_rel, std::memory_order_relaxed)) break;
      }
      cell_model[c] = GM{new_id, (int)mark, n};
      if (old.get() != nullptr) {
        old_id = old->id;
        retire(old, NG);
      } else {
        unreg(NG);
        old.reset();
      }
    }
    vrt::op_end();
    if (old_id >= 0) {
      vrt::Stamp st_resp;
      vrt::stamp(&st_resp);
      R.nodes[old_id].repl_resp = st_resp.step;
    }
  }

  // value model of guards and cells (exact in single-threaded "algebra" cases)
  struct GM {
    int id = -1;
    int mark = 0;
    const void* addr = nullptr; // value equality of marked pointers is address equality (LFRC recycles node memory)
    bool operator==(const GM& o) const { return addr == o.addr && mark == o.mark; }
  };
  GM cell_model[3];
  bool algebra = false;
  void check_models(GPtr* g, GM* gm, const char* after) {
    if (!algebra) return;
    for (int k = 0; k < NG; ++k) {
      int id = g[k].get() ? g[k].get()->id : -1;
      if (id != gm[k].id || (int)g[k].mark() != gm[k].mark || static_cast<bool>(g[k]) != (gm[k].id >= 0 || gm[k].mark != 0))
        vrt::fail("guard_value_model", "after %s guard %d holds (object %d, mark %d) but the smart-pointer model says (object %d, mark %d)", after, k, id,
                  (int)g[k].mark(), gm[k].id, gm[k].mark);
      if (id >= 0 && R.nodes[id].destroyed) vrt::fail("use_after_destroy", "after %s guard %d refers to object %d which has been destroyed", after, k, id);
    }
  }
  // the snapshot returned by acquire was held by the cell at some instant of the call
  void check_snapshot(const GPtr& gp, int c, uint64_t inv, uint64_t resp) {
    if (vrt::weak_mode() || !gp.get()) return;
    NodeSt& s = R.nodes[gp.get()->id];
    if (s.pub_cell != c) vrt::fail("acquire_snapshot", "acquire on cell %d returned object %d which was published to cell %d", c, gp.get()->id, s.pub_cell);
    if (s.pub_inv > resp) vrt::fail("acquire_snapshot", "acquire returned object %d before it was published", gp.get()->id);
    if (s.repl_resp != 0 && s.repl_resp < inv)
      vrt::fail("acquire_snapshot", "acquire on cell %d returned object %d although the operation that replaced it had returned before the acquire was invoked", c,
                gp.get()->id);
  }

  void use(int g, GPtr& gp) {
    if (!gp.get()) return;
    vrt::point();
    Node* n = gp.get();
    int id = n->id;             // instrumented plain reads: O-MEM / O-RACE
    uint64_t c = n->canary;
    if (id < 0 || id >= R.n_nodes || c != canary_of(id))
      vrt::fail("corrupted_object", "guarded object at %p has id %d canary %llx (guard %d of thread %d)", (void*)n, id, (unsigned long long)c, g, vrt::self());
    if (R.guard[vrt::self()][g] != id + 1) vrt::fail("wrong_object", "guard %d of thread %d refers to object %d but acquired %d", g, vrt::self(), id, R.guard[vrt::self()][g] - 1);
    if (R.nodes[id].destroyed) vrt::fail("use_after_destroy", "object %d is used through guard %d of thread %d after it was destroyed by thread %d", id, g, vrt::self(), R.nodes[id].destroyed_by);
  }

  void run_thread(int prog) {
    int me = vrt::self();
    R.logical_thread[me] = prog;
    const size_t blocks_at_start = vrt::live_blocks(vrt::TAG_DEFAULT);
    bool first_op_done = false;
    {
      GPtr g[MAXG];
      GM gm[MAXG];
      GM lastm[3];
      MPtr last[3];
      struct RGBox {
        alignas(RG) unsigned char buf[sizeof(RG)];
      } rgs[3];
      int depth = 0;
      for (int i = 0; i < nops[prog]; ++i) {
        Op op = progs[prog][i];
        if (op.kind == OP_NOP) continue;
        vrt::point();
        switch (op.kind) {
        case OP_PUBLISH: publish(op.a, false, op.c); break;
        case OP_UNLINK: publish(op.a, true, op.c); break;
        case OP_ACQUIRE: {
          vrt::Stamp i0, i1;
          vrt::stamp(&i0);
          vrt::op_begin(1);
          {
            OpScope os;
            unreg(op.b);
            g[op.b].acquire(cells[op.a], op.c ? std::memory_order_seq_cst : std::memory_order_acquire);
            reg(op.b, g[op.b]);
          }
          vrt::op_end();
          vrt::stamp(&i1);
          check_snapshot(g[op.b], op.a, i0.step, i1.step);
          gm[op.b] = cell_model[op.a];
          break;
        }
        case OP_ACQ_IF_EQ: {
          vrt::op_begin(1);
          {
            OpScope os;
            unreg(op.b);
            bool ok = g[op.b].acquire_if_equal(cells[op.a], last[op.a], op.c ? std::memory_order_seq_cst : std::memory_order_acquire);
            if (algebra && ok != (cell_model[op.a] == lastm[op.a]))
              vrt::fail("acquire_if_equal_mismatch", "acquire_if_equal returned %d but the source %s the expected value", (int)ok, cell_model[op.a] == lastm[op.a] ? "holds" : "does not hold");
            gm[op.b] = ok ? cell_model[op.a] : GM{};
            if (ok) {
              if (MPtr(g[op.b]) != last[op.a]) vrt::fail("acquire_if_equal_mismatch", "acquire_if_equal returned true but the guard differs from the expected value");
              reg(op.b, g[op.b]);
            } else if (g[op.b].get() != nullptr)
              vrt::fail("acquire_if_equal_mismatch", "acquire_if_equal returned false but left the guard non-empty");
          }
          vrt::op_end();
          break;
        }
        case OP_LOAD:
          last[op.a] = cells[op.a].load(std::memory_order_relaxed);
          lastm[op.a] = cell_model[op.a];
          break;
        case OP_USE: use(op.b, g[op.b]); break;
        case OP_COPY: {
          vrt::op_begin(1);
          {
            OpScope os;
            unreg(op.b);
            g[op.b] = g[op.a];
            if (op.a != op.b) reg_copy(op.b, g[op.b], -1);
            else reg_copy(op.b, g[op.b], op.b);
          }
          vrt::op_end();
          gm[op.b] = gm[op.a];
          break;
        }
        case OP_SELF_ASSIGN: {
          OpScope os;
          auto& ref = g[op.a];
          g[op.a] = ref;
          if (op.c) g[op.a] = std::move(ref);
          reg_copy(op.a, g[op.a], op.a);
          break;
        }
        case OP_MOVE: {
          vrt::op_begin(1);
          {
            OpScope os;
            if (op.a != op.b) {
              unreg(op.b);
              g[op.b] = std::move(g[op.a]);
              reg_copy(op.b, g[op.b], op.a);
              if (g[op.a].get() != nullptr) vrt::fail("move_leaves_source", "moved-from guard is not empty");
              unreg(op.a);
              gm[op.b] = gm[op.a];
              gm[op.a] = GM{};
            }
          }
          vrt::op_end();
          break;
        }
        case OP_SWAP: {
          OpScope os;
          if (op.a != op.b) {
            g[op.a].swap(g[op.b]);
            swap_reg(op.a, op.b);
            std::swap(gm[op.a], gm[op.b]);
          }
          break;
        }
        case OP_RESET: {
          vrt::op_begin(1);
          {
            OpScope os;
            unreg(op.b);
            g[op.b].reset();
            if (op.c) g[op.b].reset();
          }
          vrt::op_end();
          gm[op.b] = GM{};
          break;
        }
        case OP_COPYCTOR: {
          OpScope os;
          GPtr t(g[op.a]);
          reg_copy(NG, t, -1);
          if (op.a != op.b) {
            t.swap(g[op.b]);
            swap_reg(NG, op.b);
          }
          unreg(NG); // t is released at the end of this scope
          gm[op.b] = gm[op.a];
          break;
        }
        case OP_MOVECTOR: {
          vrt::op_begin(1);
          {
            OpScope os;
            if (op.a != op.b) {
              {
                GPtr t(std::move(g[op.a]));
                if (g[op.a].get() != nullptr) vrt::fail("move_leaves_source", "guard is not empty after another guard has been move-constructed from it");
                reg_copy(NG, t, op.a);
                unreg(op.a);
                t.swap(g[op.b]);
                swap_reg(NG, op.b);
                unreg(NG); // t (the previous content of the target) is released at the end of this scope
              }
              gm[op.b] = gm[op.a];
              gm[op.a] = GM{};
            }
          }
          vrt::op_end();
          break;
        }
        case OP_FROM_MARKED: {
          // guard constructed from a marked_ptr: only for an object this thread has just allocated and not yet
          // published (the documentation promises protection only through acquire / acquire_if_equal / copies;
          // hazard eras indeed do not protect an already retired object through this constructor)
          Node* n = alloc_node();
          {
            OpScope os;
            GPtr t{MPtr(n)};
            unreg(op.b);
            g[op.b] = std::move(t);
            reg(op.b, g[op.b]);
          }
          gm[op.b] = GM{n->id, 0, n};
          publish(op.a % ncells, false, op.c, n);
          break;
        }
        case OP_REGION_ENTER:
          if (depth < 3) new (rgs[depth++].buf) RG();
          break;
        case OP_REGION_LEAVE:
          if (depth > 0) reinterpret_cast<RG*>(rgs[--depth].buf)->~RG();
          break;
        case OP_REGION_CYCLES:
          if (depth == 0)
            for (int i = 0; i < 2 + 2 * (op.b % 3); ++i) {
              RG rg;
              vrt::point();
            }
          break;
        default: break;
        }
        check_models(g, gm, op_names[op.kind]);
        if (!first_op_done && op.kind != OP_LOAD && op.kind != OP_USE) {
          first_op_done = true;
          if (vrt::live_blocks(vrt::TAG_DEFAULT) == blocks_at_start && prog > 1) {
            vrt::label("thread_record_reused_without_allocation");
            if (vrt::live_threads() >= 2) R.adopted_while_others_live = true;
          }
        }
      }
      if (algebra) {
        // pressure while the guards of this thread are still alive: every published object is replaced (and thereby
        // retired) and the reclaimer is driven through many retire/scan/epoch rounds; an object some guard of
        // this thread still refers to must survive all of it (the registry reports destroyed_while_guarded)
        for (int c = 0; c < ncells; ++c) publish(c, false, 0);
        for (int i = 0; i < 12; ++i) {
          RG rg;
          publish(i % ncells, i % 3 == 0, i & 1);
        }
        check_models(g, gm, "pressure");
      }
      // protocol: guards and regions are released on their thread before it exits
      {
        OpScope os;
        for (int k = NG - 1; k >= 0; --k) {
          unreg(k);
          g[k].reset();
        }
      }
      while (depth > 0) reinterpret_cast<RG*>(rgs[--depth].buf)->~RG();
    }
    R.program_done[prog] = true;
    // the thread exits here: thread_local reclaimer state is destroyed under the scheduler's control
  }

  void gen_program(int p, bool is_main_prefix) {
    static const uint32_t w_c01[OP_NKINDS] = {40, 22, 8, 18, 6, 6, 16, 4, 3, 2, 6, 2, 2, 3, 3, 1, 2, 4};
    static const uint32_t w_c02[OP_NKINDS] = {35, 34, 12, 10, 3, 3, 6, 2, 2, 1, 5, 1, 1, 3, 3, 1, 1, 5};
    static const uint32_t w_pre[2] = {1, 1};
    // single-threaded algebra cases (C15): guard-to-guard operations and marked null pointers are frequent
    static const uint32_t w_alg[OP_NKINDS] = {16, 14, 10, 16, 8, 6, 8, 8, 8, 6, 8, 8, 3, 3, 3, 3, 8, 3};
    const uint32_t* w = (algebra || vrt::param("copy_heavy", 0)) ? w_alg : (vh::prop_is("C02") || vh::prop_is("C17")) ? w_c02 : w_c01;
    int n = is_main_prefix ? 2 : MAXOPS; // fixed shape: absent operations are NOPs, so zeroing a choice removes one
    nops[p] = n;
    int depth = 0;
    for (int i = 0; i < n; ++i) {
      Op op{};
      op.kind = is_main_prefix ? (uint8_t)vrt::weighted(w_pre, 2) : (uint8_t)vrt::weighted(w, OP_NKINDS);
      op.a = (uint8_t)vrt::choose((uint32_t)ncells);
      op.b = (uint8_t)vrt::choose((uint32_t)NG);
      op.c = (uint8_t)vrt::choose(2);
      if (op.kind == OP_COPY || op.kind == OP_MOVE || op.kind == OP_SWAP || op.kind == OP_COPYCTOR || op.kind == OP_SELF_ASSIGN || op.kind == OP_MOVECTOR)
        op.a = (uint8_t)vrt::choose((uint32_t)NG);
      if (op.kind == OP_REGION_ENTER) {
        if (depth >= 3)
          op.kind = OP_LOAD;
        else
          depth++;
      } else if (op.kind == OP_REGION_LEAVE) {
        if (depth == 0)
          op.kind = OP_USE;
        else
          depth--;
      } else if (op.kind == OP_REGION_CYCLES && depth > 0)
        op.kind = OP_LOAD;
      progs[p][i] = op;
    }
  }

  void describe() {
    if (!vrt::want_desc()) return;
    vrt::desc("cells=%d guards/thread=%d thread programs=%d\n", ncells, NG, nprog);
    for (int p = 0; p < nprog; ++p) {
      vrt::desc(p == 0 ? "  main prefix:" : "  T%d:", p);
      for (int i = 0; i < nops[p]; ++i) {
        Op o = progs[p][i];
        switch (o.kind) {
        case OP_NOP: break;
        case OP_PUBLISH:
        case OP_UNLINK: vrt::desc(" %s(cell%d,mark%d)", op_names[o.kind], o.a, o.c); break;
        case OP_ACQUIRE:
        case OP_ACQ_IF_EQ: vrt::desc(" g%d.%s(cell%d,%s)", o.b, op_names[o.kind], o.a, o.c ? "seq_cst" : "acquire"); break;
        case OP_LOAD: vrt::desc(" load(cell%d)", o.a); break;
        case OP_USE: vrt::desc(" use(g%d)", o.b); break;
        case OP_RESET: vrt::desc(" g%d.reset()%s", o.b, o.c ? "x2" : ""); break;
        case OP_REGION_ENTER:
        case OP_REGION_LEAVE: vrt::desc(" %s", op_names[o.kind]); break;
        case OP_REGION_CYCLES: vrt::desc(" %dx{region_guard}", 2 + 2 * (o.b % 3)); break;
        case OP_FROM_MARKED: vrt::desc(" g%d=guard(new node);publish(cell%d,mark%d)", o.b, o.a, o.c); break;
        default: vrt::desc(" %s(g%d->g%d)", op_names[o.kind], o.a, o.b); break;
        }
      }
      vrt::desc("\n");
    }
  }

  // public-API-only flush: after it, every retired program object must have been destroyed
  void flush() {
    int rounds = (int)vrt::param("flush_rounds", 64);
    for (int i = 0; i < rounds; ++i) {
      RG rg;
      Node* d = alloc_node(true);
      GPtr g{MPtr(d)};
      R.guard[0][0] = d->id + 1;
      retire(g, 0);
    }
    for (int i = 0; i < 4; ++i) {
      RG rg;
    }
    // the presets (epoch_based, new_epoch_based, debra) try to advance the epoch only every 20 / 100 critical region
    // entries: keep entering regions (up to 40 x 16) while a retired program object is still waiting
    // (only the creation of a guard_ptr counts as a critical region entry)
    Node* keep = nullptr;
    for (int k = 0; k < 40 && pending_retired(); ++k) {
      if (!keep) keep = alloc_node(true);
      for (int i = 0; i < 16; ++i) {
        RG rg;
        GPtr g{MPtr(keep)};
      }
    }
  }
  static bool pending_retired() {
    for (int id = 0; id < R.n_nodes; ++id)
      if (!R.nodes[id].dummy && R.nodes[id].retired && !R.nodes[id].destroyed) return true;
    return false;
  }

  void run() {
    const bool c02 = vh::prop_is("C02"), c17 = vh::prop_is("C17");
    algebra = vrt::param("algebra", 0) != 0;
    nested_retire = vrt::param("nested_retire", 0) != 0;
    ncells = 1 + (int)vrt::choose(3);
    int total, max_live;
    if (algebra) {
      total = 1; // one thread: the value model of guards and cells is exact
      max_live = 1;
    } else if (c17) {
      total = 3 + (int)vrt::choose(8);
      max_live = 1 + (int)vrt::choose(3);
    } else if (c02) {
      total = 2 + (int)vrt::choose(5);
      max_live = 1 + (int)vrt::choose(3);
    } else {
      total = 2 + (int)vrt::choose(3);
      max_live = total;
    }
    nprog = total + 1;
    gen_program(0, true);
    for (int p = 1; p < nprog; ++p) gen_program(p, false);
    // director: when to join the oldest live thread although more could be spawned
    uint8_t early_join[MAXTH];
    for (int p = 0; p < nprog; ++p) early_join[p] = (c02 || c17) ? (uint8_t)vrt::choose(3) == 0 : 0;
    uint64_t ph = 0;
    for (int p = 0; p < nprog; ++p)
      for (int i = 0; i < nops[p]; ++i) ph = vh::hmix(ph, (uint64_t)progs[p][i].kind | ((uint64_t)progs[p][i].a << 8) | ((uint64_t)progs[p][i].b << 16) | ((uint64_t)progs[p][i].c << 24) | ((uint64_t)p << 32));
    vrt::fp(ph);
    describe();

    // main prefix: publish initial nodes
    for (int i = 0; i < nops[0]; ++i)
      if (progs[0][i].kind == OP_PUBLISH) publish(progs[0][i].a, false, progs[0][i].c);

    vrt::concurrent_phase(true);
    int tids[MAXTH];
    int head = 1, tail = 1; // programs [head, tail) are live
    size_t base_blocks = 0;
    int peak_live = 0;
    (void)base_blocks;
    struct Arg {
      Client* c;
      int p;
    };
    static Arg args[MAXTH];
    while (head < nprog) {
      bool can_spawn = tail < nprog && tail - head < max_live;
      if (can_spawn && !(tail > head && early_join[tail])) {
        args[tail] = Arg{this, tail};
        tids[tail] = vrt::spawn([](void* a) { static_cast<Arg*>(a)->c->run_thread(static_cast<Arg*>(a)->p); }, &args[tail]);
        tail++;
        if (tail - head > peak_live) peak_live = tail - head;
      } else {
        vrt::join(tids[head]);
        head++;
      }
    }
    vrt::concurrent_phase(false);
    for (int p = 1; p < nprog; ++p)
      if (!R.program_done[p]) vrt::fail("harness_error", "thread program %d did not complete", p);

    // evidence classification
    if (R.destroyed_count > 0) vrt::label("some_object_destroyed");
    if (R.deleter_under_guard) vrt::label("deleter_ran_while_other_thread_guarding");
    if (R.switch_in_guard_op) vrt::label("context_switch_inside_guard_op");
    vrt::fp(R.hist);
    if (algebra) {
      int ops = 0;
      for (int i = 0; i < nops[1]; ++i) ops += progs[1][i].kind == OP_COPY || progs[1][i].kind == OP_MOVE || progs[1][i].kind == OP_SWAP;
      if (ops > 0) vrt::nontrivial();
      return;
    }
    if (!c02 && !c17) {
      if (R.deleter_under_guard && R.switch_in_guard_op) vrt::nontrivial();
      return;
    }

    // ---- C02 / C17: flush and census
    flush();
    int leaked = 0, first_leak = -1, handed_over = 0;
    for (int id = 0; id < R.n_nodes; ++id) {
      NodeSt& s = R.nodes[id];
      if (s.dummy) continue;
      if (s.retired && !s.destroyed) {
        leaked++;
        if (first_leak < 0) first_leak = id;
      }
      if (s.retired && s.destroyed && s.destroyed_by != s.retired_by) handed_over++;
      if (!s.retired && s.destroyed) vrt::fail("destroy_unretired", "object %d destroyed but never retired", id);
    }
    if (leaked)
      vrt::fail("leak", "%d retired object(s) still not destroyed after all threads exited and the reclaimer was flushed (first: object %d retired by thread %d)",
                leaked, first_leak, R.nodes[first_leak].retired_by);
    if (handed_over > 0) {
      if (c02) vrt::nontrivial();
      vrt::label("handed_over");
    }
    if (R.retired_count > 0) vrt::label("some_object_retired");
    if (R.nested_retires > 0) vrt::label("object_retired_by_a_deleter");
    if (!c17) return;

    // ---- C17: bookkeeping is recycled.  Phase 2: identical threads strictly one after the other; every one of
    // them must be served by a recycled thread record, so the number of live bookkeeping blocks (neither client
    // nodes nor harness memory) must stay flat once the recycled record has reached its full size.
    const int K2 = 5;
    size_t blocks[K2 + 1];
    blocks[0] = vrt::live_blocks(vrt::TAG_DEFAULT);
    int extra = nprog; // program slot used by the phase-2 threads
    nops[extra] = 4;
    progs[extra][0] = Op{OP_PUBLISH, 0, 0, 0};
    progs[extra][1] = Op{OP_ACQUIRE, 0, 0, 1};
    progs[extra][2] = Op{OP_USE, 0, 0, 0};
    progs[extra][3] = Op{OP_PUBLISH, 0, 0, 1};
    static Arg arg2;
    arg2 = Arg{this, extra};
    for (int k = 1; k <= K2; ++k) {
      int t = vrt::spawn([](void* a) { static_cast<Arg*>(a)->c->run_thread(static_cast<Arg*>(a)->p); }, &arg2);
      vrt::join(t);
      flush();
      blocks[k] = vrt::live_blocks(vrt::TAG_DEFAULT);
    }
    for (int id = 0; id < R.n_nodes; ++id)
      if (!R.nodes[id].dummy && R.nodes[id].retired && !R.nodes[id].destroyed)
        vrt::fail("leak", "object %d retired by a later thread generation was not destroyed after the flush", id);
    if (blocks[K2] != blocks[2] || blocks[K2 - 1] != blocks[2])
      vrt::fail("bookkeeping_growth",
                "live reclaimer bookkeeping blocks keep growing with sequential thread generations: %zu after phase 1, then %zu %zu %zu %zu %zu",
                blocks[0], blocks[1], blocks[2], blocks[3], blocks[4], blocks[5]);
    size_t bound = 8 + 6 * (size_t)(peak_live + 1);
    if (blocks[K2] > bound)
      vrt::fail("bookkeeping_bound", "%zu live bookkeeping blocks for a peak of %d simultaneously live threads (bound %zu)", blocks[K2], peak_live + 1, bound);
    vrt::label("sequential_generations_flat");
    if (R.adopted_while_others_live) vrt::nontrivial();
  }
};

template <class S>
void run_client() {
  vrt::TagScope ts(vrt::TAG_HARNESS);
  auto* c = new Client<S>();
  vrt::set_alloc_tag(vrt::TAG_DEFAULT);
  c->run();
}

// ---- reclaimer menu ------------------------------------------------------------------------------
template <size_t SF, class Scan, class Abandon, rec::region_extension RE>
using GEB = rec::generic_epoch_based<>::with<policy::scan_frequency<SF>, policy::scan<Scan>, policy::abandon<Abandon>, policy::region_extension<RE>>;
using rec::region_extension;
namespace scan = rec::scan;
namespace abandon = rec::abandon;

using HPs2 = rec::hazard_pointer<>::with<policy::allocation_strategy<rec::hp_allocation::static_strategy<2, 0, 0>>>;
using HPs3 = rec::hazard_pointer<>::with<policy::allocation_strategy<rec::hp_allocation::static_strategy<3, 0, 0>>>;
using HPd1 = rec::hazard_pointer<>::with<policy::allocation_strategy<rec::hp_allocation::dynamic_strategy<1, 0, 0>>>;
using HPd2t = rec::hazard_pointer<>::with<policy::allocation_strategy<rec::hp_allocation::dynamic_strategy<2, 1, 2>>>;
using HEs2 = rec::hazard_eras<>::with<policy::allocation_strategy<rec::he_allocation::static_strategy<2, 0, 0>>>;
using HEs3 = rec::hazard_eras<>::with<policy::allocation_strategy<rec::he_allocation::static_strategy<3, 0, 0>>>;
using HEd1 = rec::hazard_eras<>::with<policy::allocation_strategy<rec::he_allocation::dynamic_strategy<1, 0, 0>>>;
using HEd2t = rec::hazard_eras<>::with<policy::allocation_strategy<rec::he_allocation::dynamic_strategy<2, 1, 2>>>;
using LFRC0 = rec::lock_free_ref_count<>::with<policy::thread_local_free_list_size<0>>;
using LFRC2p = rec::lock_free_ref_count<>::with<policy::thread_local_free_list_size<2>, policy::insert_padding<true>>;

#define RC(name, type, lfrc, ng, tags) vrt::Cfg{name, &run_client<Scheme<type, lfrc, ng>>, tags}
#define GEBT(alias, sf, sc, ab, re) using alias = GEB<sf, sc, ab, region_extension::re>
GEBT(E1, 0, scan::all_threads, abandon::never, none);
GEBT(E2, 0, scan::all_threads, abandon::always, eager);
GEBT(E3, 1, scan::one_thread, abandon::never, eager);
GEBT(E4, 0, scan::one_thread, abandon::always, none);
GEBT(E5, 2, scan::n_threads<2>, abandon::when_exceeds_threshold<2>, lazy);
GEBT(E6, 0, scan::n_threads<2>, abandon::never, lazy);
GEBT(E7, 1, scan::all_threads, abandon::when_exceeds_threshold<2>, none);
GEBT(E8, 0, scan::one_thread, abandon::when_exceeds_threshold<2>, eager);
GEBT(E9, 2, scan::all_threads, abandon::always, lazy);

const vrt::Cfg cfgs[] = {
#if RCLIENT_GROUP == 0
  RC("hp_static2", HPs2, false, 1, "hp,quick"),
  RC("hp_static3", HPs3, false, 2, "hp,quick"),
  RC("hp_dynamic1", HPd1, false, 3, "hp,quick"),
  RC("hp_dynamic2_thr", HPd2t, false, 3, "hp"),
  RC("he_static2", HEs2, false, 1, "he,quick"),
  RC("he_static3", HEs3, false, 2, "he"),
  RC("he_dynamic1", HEd1, false, 3, "he,quick"),
  RC("he_dynamic2_thr", HEd2t, false, 3, "he"),
#elif RCLIENT_GROUP == 1
  RC("qsbr", rec::quiescent_state_based, false, 3, "qsbr,quick"),
  RC("stamp_it", rec::stamp_it, false, 3, "stamp,quick"),
  RC("lfrc_fl0", LFRC0, true, 3, "lfrc,quick"),
  RC("lfrc_fl2_padded", LFRC2p, true, 3, "lfrc,quick"),
  RC("epoch_based", rec::epoch_based<>, false, 3, "ebr,preset"),
  RC("new_epoch_based", rec::new_epoch_based<>, false, 3, "ebr,preset"),
  RC("debra", rec::debra<>, false, 3, "ebr,preset"),
#elif RCLIENT_GROUP == 2
  // covering subset: every value of every policy
  RC("ebr_sf0_all_never_none", E1, false, 3, "ebr,quick"),
  RC("ebr_sf0_all_always_eager", E2, false, 3, "ebr,quick"),
  RC("ebr_sf1_one_never_eager", E3, false, 3, "ebr,quick"),
  RC("ebr_sf0_one_always_none", E4, false, 3, "ebr,quick"),
  RC("ebr_sf2_n2_thr2_lazy", E5, false, 3, "ebr,quick"),
  RC("ebr_sf0_n2_never_lazy", E6, false, 3, "ebr,quick"),
  RC("ebr_sf1_all_thr2_none", E7, false, 3, "ebr,quick"),
  RC("ebr_sf0_one_thr2_eager", E8, false, 3, "ebr,quick"),
  RC("ebr_sf2_all_always_lazy", E9, false, 3, "ebr,quick"),
#else
  #error "RCLIENT_GROUP"
#endif
};

#define STR2(x) #x
#define STR(x) STR2(x)
const vrt::Harness harness{"rclient" STR(RCLIENT_GROUP), cfgs, (int)(sizeof cfgs / sizeof cfgs[0])};
} // namespace

extern "C" const vrt::Harness* vrt_harness() {
  return &harness;
}
