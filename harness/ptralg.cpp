// ptralg — marked_ptr round trips for every mark width / bit split, concurrent_ptr as an atomic marked_ptr (C15 parts 1, 2).
#include "prelude_begin.hpp"

#include <xenium/marked_ptr.hpp>
#include <xenium/reclamation/generic_epoch_based.hpp>
#include <xenium/reclamation/hazard_pointer.hpp>

#include "prelude_end.hpp"

#include "hcommon.hpp"

using namespace xenium;

namespace {

struct Dummy {
  int x;
};

uint64_t draw64() {
  uint64_t r = 0;
  // special patterns with high probability, otherwise random bits
  switch (vrt::choose(8)) {
  case 0: return 0;
  case 1: return ~0ull;
  case 2: return 1ull << vrt::choose(64);
  case 3: return ~(1ull << vrt::choose(64));
  case 4: return (1ull << vrt::choose(64)) - 1;
  default:
    for (int i = 0; i < 4; ++i) r = (r << 16) | vrt::choose(65536);
    return r;
  }
}

template <class MP, uintptr_t M>
MP make_mp(Dummy* p, uintptr_t mark) {
  if constexpr (M == 0)
    return MP(p);
  else
    return MP(p, mark);
}

template <uintptr_t M, uintptr_t U>
void check_marked_ptr(uint64_t rounds) {
  using MP = marked_ptr<Dummy, M, U>;
  constexpr uintptr_t lower = M == 0 ? 0 : (M < U ? 0 : M - U);
  constexpr uintptr_t pointer_bits = 64 - M;
  const uint64_t pointer_mask = M == 0 ? ~0ull : (((pointer_bits == 64 ? 0 : (1ull << pointer_bits)) - 1) << lower);
  const uint64_t mark_mask = M == 0 ? 0 : (M == 64 ? ~0ull : ((1ull << M) - 1));
  for (uint64_t r = 0; r < rounds; ++r) {
    // construction, not rejection: any bit pattern restricted to the bits the class leaves to the pointer
    uint64_t praw = draw64() & pointer_mask;
    uint64_t m = draw64();
    auto* p = reinterpret_cast<Dummy*>(praw);
    MP a = make_mp<MP, M>(p, (uintptr_t)(m & mark_mask));
    uint64_t want_mark = m & mark_mask;
    if (a.get() != p) vrt::fail("marked_ptr_roundtrip", "marked_ptr<%lu,%lu>(%p, %llx).get() == %p", (unsigned long)M, (unsigned long)U, (void*)p, (unsigned long long)want_mark, (void*)a.get());
    if (a.mark() != want_mark)
      vrt::fail("marked_ptr_roundtrip", "marked_ptr<%lu,%lu>(%p, %llx).mark() == %llx", (unsigned long)M, (unsigned long)U, (void*)p, (unsigned long long)want_mark,
                (unsigned long long)a.mark());
    if constexpr (M != 0) {
      // the mark is trimmed to its width: higher bits of the argument must not leak into the pointer
      MP a2(p, (uintptr_t)m);
      if (M < 64 && (a2.get() != p || a2.mark() != want_mark)) {
        // documented precondition is a mark of at most M bits; the class is only required to keep the low M bits
        if (a2.mark() != want_mark || a2.get() != p) vrt::label("mark_wider_than_M_not_trimmed");
      }
    }
    uint64_t praw2 = draw64() & pointer_mask;
    uint64_t m2 = draw64() & mark_mask;
    MP b = make_mp<MP, M>(reinterpret_cast<Dummy*>(praw2), (uintptr_t)m2);
    bool same = praw == praw2 && want_mark == m2;
    if ((a == b) != same || (a != b) == same) vrt::fail("marked_ptr_equality", "marked_ptr<%lu,%lu> equality is not value equality", (unsigned long)M, (unsigned long)U);
    MP c = a;
    if (!(c == a)) vrt::fail("marked_ptr_equality", "a copy does not compare equal");
    if (static_cast<bool>(a) != (praw != 0 || want_mark != 0)) vrt::fail("marked_ptr_bool", "operator bool is wrong for (%p,%llx)", (void*)p, (unsigned long long)want_mark);
    c.reset();
    if (c.get() != nullptr || c.mark() != 0 || static_cast<bool>(c)) vrt::fail("marked_ptr_reset", "reset() does not yield the null pointer without mark");
    MP d;
    if (!(d == c)) vrt::fail("marked_ptr_reset", "a reset pointer differs from a default constructed one");
  }
  vrt::count("marked_ptr_round_trips", rounds);
}

template <uintptr_t M>
void check_all_U(uint64_t rounds) {
  check_marked_ptr<M, 0>(rounds);
  check_marked_ptr<M, 1>(rounds);
  check_marked_ptr<M, 4>(rounds);
  check_marked_ptr<M, 8>(rounds);
  check_marked_ptr<M, 16>(rounds);
  check_marked_ptr<M, 20>(rounds);
}
template <uintptr_t M>
struct AllM {
  static void run(uint64_t rounds) {
    check_all_U<M>(rounds);
    if constexpr (M > 0) AllM<M - 1>::run(rounds);
  }
};

void run_marked() {
  uint64_t rounds = vrt::param("rounds", 12);
  AllM<32>::run(rounds);
  vrt::fp(vh::hmix(vrt::choose(1u << 30), vrt::choose(1u << 30)));
  vrt::count("marked_ptr_instantiations", 33 * 6);
  vrt::nontrivial(); // every case covers all widths incl. M > U (lower bits in use) and M >= 16
}

// ---- concurrent_ptr behaves like an atomic marked_ptr: one-cell model ----------------------------------------
template <class R>
struct CNode : R::template enable_concurrent_ptr<CNode<R>, 3> {
  int id = 0;
};
template <class R>
void run_cptr() {
  using N = CNode<R>;
  using CP = typename R::template concurrent_ptr<N, 3>;
  using MP = typename CP::marked_ptr;
  static N nodes[4];
  CP cell;
  MP model{};
  if (cell.load() != MP()) vrt::fail("concurrent_ptr_model", "a default constructed concurrent_ptr is not null");
  int n = 20 + (int)vrt::choose(40);
  uint64_t h = 0;
  for (int i = 0; i < n; ++i) {
    MP v(vrt::choose(5) == 0 ? nullptr : &nodes[vrt::choose(4)], vrt::choose(8));
    uint32_t op = vrt::choose(5);
    h = vh::hmix(h, op * 64 + (uint64_t)v.mark() * 8 + (uint64_t)(v.get() ? v.get() - nodes + 1 : 0));
    static const std::memory_order mos[3] = {std::memory_order_relaxed, std::memory_order_acquire, std::memory_order_seq_cst};
    switch (op) {
    case 0:
      cell.store(v, vrt::choose(2) ? std::memory_order_release : std::memory_order_seq_cst);
      model = v;
      break;
    case 1: {
      MP got = cell.load(mos[vrt::choose(3)]);
      if (got != model) vrt::fail("concurrent_ptr_model", "load returned a value different from the last stored one");
      break;
    }
    case 2:
    case 3: {
      MP expected = vrt::choose(2) ? model : v;
      MP e2 = expected;
      bool ok = op == 2 ? cell.compare_exchange_strong(e2, v, std::memory_order_acq_rel, std::memory_order_relaxed) : cell.compare_exchange_strong(e2, v);
      if (ok != (expected == model)) vrt::fail("concurrent_ptr_model", "compare_exchange_strong succeeded=%d although expected %s the stored value", (int)ok, expected == model ? "equals" : "differs from");
      if (ok)
        model = v;
      else if (e2 != model)
        vrt::fail("concurrent_ptr_model", "a failed compare_exchange did not report the stored value");
      break;
    }
    default: {
      MP e2 = model;
      bool ok = false;
      for (int tries = 0; tries < 100 && !ok; ++tries) ok = cell.compare_exchange_weak(e2, v, std::memory_order_seq_cst);
      if (!ok) vrt::fail("concurrent_ptr_model", "compare_exchange_weak with the right expected value failed 100 times in a row without contention");
      model = v;
      break;
    }
    }
    if (cell.load(std::memory_order_relaxed).get() != model.get() || cell.load(std::memory_order_relaxed).mark() != model.mark())
      vrt::fail("concurrent_ptr_model", "stored pointer/mark differ from the model after operation %d", i);
  }
  vrt::count("concurrent_ptr_operations", (uint64_t)n);
  vrt::fp(h);
  vrt::nontrivial();
}

using HPd = reclamation::hazard_pointer<>::with<policy::allocation_strategy<reclamation::hp_allocation::dynamic_strategy<2, 0, 0>>>;
using EBR = reclamation::epoch_based<>;

const vrt::Cfg cfgs[] = {
  vrt::Cfg{"marked_ptr_all_widths", &run_marked, "quick,marked"},
  vrt::Cfg{"concurrent_ptr_hp", &run_cptr<HPd>, "quick,cptr"},
  vrt::Cfg{"concurrent_ptr_ebr", &run_cptr<EBR>, "quick,cptr"},
};
const vrt::Harness harness{"ptralg", cfgs, 3};
} // namespace

extern "C" const vrt::Harness* vrt_harness() {
  return &harness;
}
