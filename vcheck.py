#!/usr/bin/env python3
"""vcheck.py — build + run + merge + report for the xenium property checks (see DESIGN.md §10).

  vcheck.py C01 [--tier quick|thorough] [--seed N]      run one property's check
  vcheck.py --replay FILE                                re-run one replay file (3 times)
  vcheck.py --build PROP                                 only build the binaries the property needs

Exit status: 0 property held on everything explored (KNOWN-FINDING lines are informational),
             1 after printing `VIOLATION property=<id> replay=<path>`,
             2 the harness could not be built from the xenium tree (no VIOLATION line).
"""
import array
import concurrent.futures as cf
import glob
import hashlib
import json
import os
import re
import shutil
import subprocess
import sys
import time

VERIF = os.path.dirname(os.path.abspath(__file__))
sys.path.insert(0, VERIF)
import vprops  # noqa: E402

XROOT = os.environ.get("VERIF_XENIUM_ROOT", "/repo")
BUILD = os.path.join(VERIF, ".build")
ENGINE = os.path.join(VERIF, "engine")
HARNESS = os.path.join(VERIF, "harness")
NCPU = int(os.environ.get("VERIF_JOBS", os.cpu_count() or 16))
CXX = "g++"
BASE_FLAGS = ["-std=c++17", "-O1", "-g0", "-fno-omit-frame-pointer", "-pthread", "-w"]


def sh(cmd, **kw):
    return subprocess.run(cmd, stdout=subprocess.PIPE, stderr=subprocess.STDOUT, text=True, **kw)


def tree_hash():
    h = hashlib.sha256()
    for root in (os.path.join(XROOT, "xenium"), ENGINE):
        for dp, dn, fn in sorted(os.walk(root)):
            dn.sort()
            for f in sorted(fn):
                p = os.path.join(dp, f)
                h.update(p.encode())
                with open(p, "rb") as fh:
                    h.update(fh.read())
    return h.hexdigest()


_TREE = None


def obj_key(kind, src, flags):
    global _TREE
    if _TREE is None:
        _TREE = tree_hash()
    h = hashlib.sha256()
    h.update(_TREE.encode())
    h.update(kind.encode())
    with open(src, "rb") as fh:
        h.update(fh.read())
    h.update(" ".join(flags).encode())
    return h.hexdigest()[:24]


def compile_obj(kind, src, flags):
    os.makedirs(BUILD, exist_ok=True)
    out = os.path.join(BUILD, "%s-%s.o" % (os.path.basename(src).replace(".cpp", ""), obj_key(kind, src, flags)))
    if os.path.exists(out):
        return out, ""
    tmp = out + ".tmp%d" % os.getpid()
    r = sh([CXX] + BASE_FLAGS + flags + ["-I" + ENGINE, "-I" + XROOT, "-c", src, "-o", tmp])
    if r.returncode != 0:
        return None, r.stdout
    os.replace(tmp, out)
    return out, ""


def variant_flags(variant):
    # Engine A: instrumented plain accesses through the TSan ABI, our own runtime instead of libtsan.
    f = ["-fsanitize=thread", "--param", "tsan-instrument-func-entry-exit=0"]
    if variant.startswith("prod"):
        f += ["-U__SANITIZE_THREAD__"]  # xenium's production memory orders (explicit fences)
    if variant.endswith("ndebug"):
        f += ["-DNDEBUG"]
    else:
        f += ["-UNDEBUG"]
    return f


def build_binary(src_name, defines, variant):
    """returns (path, error)"""
    src = os.path.join(HARNESS, src_name)
    flags = variant_flags(variant) + ["-D%s" % d for d in defines]
    rt, e1 = compile_obj("rt", os.path.join(ENGINE, "vrt.cpp"), [])
    dr, e2 = compile_obj("rt", os.path.join(ENGINE, "driver.cpp"), [])
    ho, e3 = compile_obj("harness", src, flags)
    if not (rt and dr and ho):
        return None, (e1 + e2 + e3)
    exe = ho[:-2] + ".bin"
    if not os.path.exists(exe):
        r = sh([CXX, "-o", exe + ".tmp%d" % os.getpid(), ho, dr, rt, "-pthread"])
        if r.returncode != 0:
            return None, r.stdout
        os.replace(exe + ".tmp%d" % os.getpid(), exe)
    return exe, ""


def build_all(jobs):
    # runtime objects first (shared), then harness TUs in parallel
    for f in ("vrt.cpp", "driver.cpp"):
        o, e = compile_obj("rt", os.path.join(ENGINE, f), [])
        if not o:
            return None, e
    uniq = {}
    for j in jobs:
        uniq[(j["src"], tuple(j.get("defines", ())), j.get("variant", "prod"))] = None
    with cf.ThreadPoolExecutor(max_workers=NCPU) as ex:
        futs = {ex.submit(build_binary, k[0], list(k[1]), k[2]): k for k in uniq}
        for fu in cf.as_completed(futs):
            exe, err = fu.result()
            if not exe:
                return None, "building %s %s failed:\n%s" % (futs[fu][0], futs[fu][1], err[-6000:])
            uniq[futs[fu]] = exe
    return uniq, ""


# ---------------------------------------------------------------------------------------------------------------------
# Engine B ("vfuzz"): harness/fuzzseq.cpp built natively with clang (libFuzzer + AddressSanitizer + UBSan)
FUZZ_CXX = "clang++"
FUZZ_FLAGS = ["-std=gnu++17", "-g", "-O1", "-fsanitize=fuzzer,address,undefined", "-fno-sanitize=null,alignment", "-fno-sanitize-recover=undefined", "-UNDEBUG", "-w"]
FUZZ_ENV = {"ASAN_OPTIONS": "detect_leaks=0:abort_on_error=0:symbolize=0", "UBSAN_OPTIONS": "print_stacktrace=0"}


def build_fuzz():
    os.makedirs(BUILD, exist_ok=True)
    src = os.path.join(HARNESS, "fuzzseq.cpp")
    exe = os.path.join(BUILD, "fuzzseq-%s.bin" % obj_key("fuzz", src, FUZZ_FLAGS))
    if os.path.exists(exe):
        return exe, ""
    tmp = exe + ".tmp%d" % os.getpid()
    r = sh([FUZZ_CXX] + FUZZ_FLAGS + ["-I" + XROOT, "-o", tmp, src])
    if r.returncode != 0:
        return None, r.stdout
    os.replace(tmp, exe)
    return exe, ""


def fuzz_classify(output):
    m = re.search(r"VFUZZ-FAIL family=(\S+) kind=(\S+) message=(.*)", output)
    if m:
        return m.group(1), m.group(2), m.group(3).strip()
    m = re.search(r"ERROR: AddressSanitizer: (\S+)(.*)", output)
    if m:
        return "", "asan_" + m.group(1).replace("-", "_"), (m.group(1) + m.group(2)).strip()[:300]
    m = re.search(r"runtime error: (.*)", output)
    if m:
        return "", "ubsan", m.group(1).strip()[:300]
    m = re.search(r"Assertion `(.*)' failed", output)
    if m:
        return "", "assertion", m.group(1)[:300]
    m = re.search(r"ERROR: libFuzzer: (timeout|deadly signal)", output)
    if m:
        return "", "hang" if m.group(1) == "timeout" else "crash", "libFuzzer: " + m.group(1)
    return "", "", ""


def fuzz_run_input(exe, families, path, dump=False):
    env = dict(os.environ, VFUZZ_FAMILIES=",".join(families), **FUZZ_ENV)
    if dump:
        env["VFUZZ_DUMP"] = "1"
    r = sh(["timeout", "60", exe, "-timeout=20", path], env=env)
    return r.returncode, r.stdout


def fuzz_family_of(families, data):
    return families[data[0] % len(families)] if data else ""


def run_fuzz_replay(rp, times=3):
    import base64
    exe, err = build_fuzz()
    if not exe:
        return None, err
    data = base64.b64decode(rp["input_b64"])
    path = os.path.join(BUILD, "replay-%d.bin" % os.getpid())
    with open(path, "wb") as fh:
        fh.write(data)
    fails = same = 0
    out_all = ""
    for i in range(times):
        rc, out = fuzz_run_input(exe, rp["families"], path, dump=(i == 0))
        fam, kind, msg = fuzz_classify(out)
        if rc != 0 and kind:
            fails += 1
            same += kind == rp.get("kind")
            out_all += "run %d: %s: %s\n" % (i + 1, kind, msg)
        else:
            out_all += "run %d: pass\n" % (i + 1)
        if i == 0:
            out_all += "\n".join(l for l in out.splitlines() if not l.startswith(("INFO:", "    #", "==")))[-3000:] + "\n"
    os.unlink(path)
    out_all += "REPLAY-RESULT expected_kind=%s violations=%d same_kind=%d of %d\n" % (rp.get("kind"), fails, same, times)
    return {"expected": rp.get("kind"), "violations": fails, "same": same, "n": times, "output": out_all}, ""


def run_fuzz_phase(prop, tier, seed, work, newrep):
    """returns (coverage dict or None, violations list, error text)"""
    import base64
    import random as pyrandom
    fj = vprops.fuzz_job(prop, tier)
    if not fj:
        return None, [], ""
    exe, err = build_fuzz()
    if not exe:
        return None, [], err
    fams = fj["families"]
    t0 = time.time()

    def worker(w):
        d = os.path.join(work, "fuzz-w%d" % w)
        corpus = os.path.join(d, "corpus")
        os.makedirs(corpus, exist_ok=True)
        if w % 2 == 1:
            # every second worker starts from a few small valid inputs (one per family) instead of the empty corpus;
            # the bytes come from a generator seeded with VERIF_SEED, not from the clock
            rng = pyrandom.Random(seed * 1000003 + w)
            for fi in range(len(fams)):
                with open(os.path.join(corpus, "seed-%d" % fi), "wb") as fh:
                    fh.write(bytes([fi]) + bytes(rng.randrange(256) for _ in range(48)))
        # at most 10^6 runs per libFuzzer process: the corpus directory carries the state over, memory (ASan quarantine,
        # retired nodes, libFuzzer's own tables) stays bounded
        st = {"families": {}, "labels": {}}
        left, chunk, rc_all, out_all = fj["runs"], 0, 0, ""
        while left > 0:
            n = min(left, 1000000)
            stats = os.path.join(d, "stats-%d.json" % chunk)
            env = dict(os.environ, VFUZZ_FAMILIES=",".join(fams), VFUZZ_STATS=stats, **FUZZ_ENV)
            r = sh([exe, "-seed=%d" % (seed * 1000 + w + 1 + 100 * chunk), "-runs=%d" % n, "-max_len=%d" % fj["max_len"], "-timeout=20", "-rss_limit_mb=4000",
                    "-print_final_stats=1", "-artifact_prefix=" + d + "/", corpus], env=env)
            rc_all = rc_all or r.returncode
            out_all += r.stdout[-4000:]
            if os.path.exists(stats):
                try:
                    one = json.load(open(stats))
                    for k, v in one.get("families", {}).items():
                        a = st["families"].setdefault(k, [0, 0, 0])
                        for i in range(3):
                            a[i] += v[i]
                    for k, v in one.get("labels", {}).items():
                        st["labels"][k] = st["labels"].get(k, 0) + v
                except Exception:
                    pass
            left -= n
            chunk += 1
            if r.returncode != 0:
                break

        class R:
            pass
        r = R()
        r.returncode, r.stdout = rc_all, out_all
        arts = sorted(glob.glob(os.path.join(d, "crash-*")))  # only crash artifacts count; slow-unit / oom / timeout are load noise
        return w, r.returncode, r.stdout, st, arts, corpus

    results = []
    with cf.ThreadPoolExecutor(max_workers=min(NCPU, fj["workers"])) as ex:
        for res in ex.map(worker, range(fj["workers"])):
            results.append(res)

    famstats, labels = {}, {}
    execs = corpus_units = 0
    violations = []
    samples = []
    for w, rc, out, st, arts, corpus in results:
        for k, v in st.get("families", {}).items():
            a = famstats.setdefault(k, [0, 0, 0])
            for i in range(3):
                a[i] += v[i]
        for k, v in st.get("labels", {}).items():
            labels[k] = labels.get(k, 0) + v
        execs += sum(int(x) for x in re.findall(r"stat::number_of_executed_units: (\d+)", out))
        units = sorted(glob.glob(os.path.join(corpus, "*")), key=lambda p: -os.path.getsize(p))
        corpus_units += len(units)
        if w == 0:
            for u in ([units[len(units) // 3], units[(2 * len(units)) // 3]] if len(units) >= 3 else units[:1]):
                rc2, dump = fuzz_run_input(exe, fams, u, dump=True)
                lines = [l for l in dump.splitlines() if not l.startswith(("INFO:", "Running", "Executed", "***", "./", "/"))]
                samples.append({"engine": "vfuzz", "input_bytes": os.path.getsize(u), "decoded": lines[:40]})
        for a in arts:
            # confirm 3 of 3 before reporting
            kinds = []
            for i in range(3):
                rc2, o2 = fuzz_run_input(exe, fams, a)
                fam, kind, msg = fuzz_classify(o2)
                kinds.append((rc2, fam, kind, msg))
            if not all(k[0] != 0 and k[2] for k in kinds):
                print("note: fuzz artifact %s did not reproduce 3 of 3 times (%s); not reported" % (a, [k[2] for k in kinds]))
                continue
            # shrink: libFuzzer's crash minimizer, accepted only if the same kind still fails
            best = a
            mini = a + ".min"
            env = dict(os.environ, VFUZZ_FAMILIES=",".join(fams), **FUZZ_ENV)
            sh(["timeout", "90", exe, "-minimize_crash=1", "-runs=30000", "-max_total_time=45", "-timeout=20", "-exact_artifact_path=" + mini, a], env=env)
            if os.path.exists(mini):
                rc3, o3 = fuzz_run_input(exe, fams, mini)
                if rc3 != 0 and fuzz_classify(o3)[2] == kinds[0][2]:
                    best = mini
                    kinds[0] = (rc3,) + fuzz_classify(o3)
            data = open(best, "rb").read()
            rc4, dump = fuzz_run_input(exe, fams, best, dump=True)
            fam = kinds[0][1] or fuzz_family_of(fams, data)
            rp = {"engine": "vfuzz", "property": prop, "harness": "fuzzseq", "families": fams, "cfg": fam, "kind": kinds[0][2], "message": kinds[0][3],
                  "input_b64": base64.b64encode(data).decode(), "seed": seed, "worker": w,
                  "decoded": [l for l in dump.splitlines() if not l.startswith(("INFO:", "    #", "==", "Running", "./", "/"))][:120]}
            name = "%s-vfuzz-%s-%s.json" % (prop, kinds[0][2], hashlib.sha256(data).hexdigest()[:10])
            path = os.path.join(newrep, name)
            with open(path, "w") as fh:
                json.dump(rp, fh, indent=1)
            violations.append({"kind": kinds[0][2], "message": kinds[0][3], "replay": path, "cfg": fam, "harness": "fuzzseq", "weak": False, "variant": "native", "window": 16})
        if rc != 0 and not arts:
            print("note: fuzz worker %d exited with %d without a crash artifact (load noise: timeout/oom/slow unit): %s" % (w, rc, out[-300:].replace("\n", " | ")))
    cov = {
        "engine": "vfuzz (libFuzzer, clang %s)" % " ".join(x for x in FUZZ_FLAGS if x.startswith("-fsan")),
        "rule": vprops.FUZZ_RULE,
        "families_[cases,nontrivial,operations]": famstats,
        "cases": sum(v[0] for v in famstats.values()),
        "nontrivial_cases": sum(v[1] for v in famstats.values()),
        "operations_executed": sum(v[2] for v in famstats.values()),
        "libfuzzer_executed_units": execs,
        "corpus_units": corpus_units,
        "labels": labels,
        "workers": fj["workers"], "runs_per_worker": fj["runs"], "max_len": fj["max_len"],
        "seeds": [seed * 1000 + w + 1 for w in range(fj["workers"])],
        "starting_corpus": "even workers: empty; odd workers: one 49-byte input per family from a generator seeded with VERIF_SEED",
        "samples": samples,
        "violations": len(violations),
        "wall_s": round(time.time() - t0, 1),
    }
    return cov, violations, ""


def load_known():
    p = os.path.join(VERIF, "known_findings.json")
    if not os.path.exists(p):
        return {"open": [], "fixed": []}
    with open(p) as fh:
        return json.load(fh)


def harness_matches(pattern, harness):
    # "" matches every harness; otherwise a comma separated list of harness names or prefixes ending in "*"
    if not pattern:
        return True
    for p in pattern.split(","):
        if p == harness or (p.endswith("*") and harness.startswith(p[:-1])):
            return True
    return False


def prop_of(finding):
    p = finding.get("property")
    return p if isinstance(p, list) else [p]


def matches(finding, viol, prop):
    m = finding.get("match", {})
    if prop not in prop_of(finding):
        return False
    if "kinds" in m and viol["kind"] not in m["kinds"]:
        return False
    if "cfg_prefix" in m and m["cfg_prefix"] not in viol["cfg"]:  # substring match (the driver does the same)
        return False
    if "variant_prefix" in m and not viol.get("variant", "prod").startswith(m["variant_prefix"]):
        return False
    if "weak_only" in m and not viol.get("weak"):
        return False
    if m.get("harness") and not harness_matches(m["harness"], viol.get("harness", "")):
        return False
    if viol.get("window", 16) < m.get("min_window", 0):
        return False
    return True


def matches_old(finding, viol, prop):
    m = finding.get("match", {})
    if "kind" in m and not re.fullmatch(m["kind"], viol["kind"]):
        return False
    if "cfg" in m and not re.fullmatch(m["cfg"], viol["cfg"]):
        return False
    if "harness" in m and not re.fullmatch(m["harness"], viol.get("harness", "")):
        return False
    if "message" in m and not re.search(m["message"], viol["message"]):
        return False
    return True


def run_replay_file(path, times=3):
    with open(path) as fh:
        rp = json.load(fh)
    if rp.get("engine") == "vfuzz":
        return run_fuzz_replay(rp, times)
    jobs = vprops.jobs_for_replay(rp)
    if not jobs:
        return None, "no harness known for replay %s" % path
    bins, err = build_all(jobs)
    if bins is None:
        return None, err
    j = jobs[0]
    exe = bins[(j["src"], tuple(j.get("defines", ())), j.get("variant", "prod"))]
    r = sh([exe, "--replay", path, "--times", str(times)])
    m = re.search(r"REPLAY-RESULT expected_kind=(\S+) violations=(\d+) same_kind=(\d+) of (\d+)", r.stdout)
    if not m:
        return None, r.stdout[-2000:]
    return {"expected": m.group(1), "violations": int(m.group(2)), "same": int(m.group(3)), "n": int(m.group(4)), "output": r.stdout}, ""


def main():
    args = sys.argv[1:]
    if not args:
        print(__doc__)
        return 2
    if args[0] == "--replay":
        res, err = run_replay_file(args[1])
        if res is None:
            print("cannot replay: " + err)
            return 2
        print(res["output"])
        return 1 if res["violations"] else 0

    if args[0] == "--setup":
        # build everything every property needs (both tiers); later runs hit the object cache unless /repo changed
        jobs = []
        for pid, sp in vprops.PROPS.items():
            jobs += sp["jobs"]("quick") + sp["jobs"]("thorough")
        bins, err = build_all(jobs)
        if bins is None:
            print("BUILD-FAILED\n" + err)
            return 2
        fexe, ferr = build_fuzz()
        if not fexe:
            print("BUILD-FAILED (fuzzseq)\n" + ferr[-4000:])
            return 2
        print("setup: %d binaries ready (+ fuzzseq)" % len(bins))
        return 0
    if args[0] == "--selftest":
        # self-test of the weak memory model: forbidden litmus outcomes must never appear, the racy MP must be reported
        jobs = [vprops.job("litmus", 0, variant="prod_ndebug")]
        bins, err = build_all(jobs)
        if bins is None:
            print("BUILD-FAILED\n" + err)
            return 2
        exe = list(bins.values())[0]
        rc = 0
        for window in (16, 64, 256):
            out = os.path.join(BUILD, "selftest-%d-%d.json" % (os.getpid(), window))
            r = sh([exe, "--campaign", "--prop", "C03", "--cases", "170000", "--weak", "--window", str(window), "--replay-dir", BUILD, "--out", out,
                    "--known", "data_race:mp_relaxed_race", "--shrink-s", "2"])
            d = json.load(open(out))
            bad = [v for v in d["violations"]]
            print("litmus (window %d): %d cases, forbidden outcomes: %d, racy message-passing reported %d times, weak outcomes seen: %s" % (
                window, d["evaluations"], len(bad), d.get("known_finding_hits", {}).get("data_race:mp_relaxed_race", 0),
                {k: v for k, v in d["labels"].items()}))
            for v in bad:
                print("  FORBIDDEN/UNEXPECTED: %s %s %s" % (v["cfg"], v["kind"], v["message"]))
            if bad or not d.get("known_finding_hits"):
                rc = 1
        return rc
    build_only = False
    if args[0] == "--build":
        build_only = True
        args = args[1:]
    prop = args[0]
    tier = os.environ.get("VERIF_TIER", "quick")
    seed = int(os.environ.get("VERIF_SEED", "1") or "1")
    i = 1
    while i < len(args):
        if args[i] == "--tier":
            tier = args[i + 1]
            i += 2
        elif args[i] == "--seed":
            seed = int(args[i + 1])
            i += 2
        else:
            print("unknown argument", args[i])
            return 2
    if tier not in ("quick", "thorough"):
        tier = "quick"
    t0 = time.time()
    spec = vprops.PROPS[prop]
    jobs = spec["jobs"](tier)
    if os.environ.get("VERIF_FORCE_VARIANT"):  # experiments only (e.g. prod_ndebug: library assertions off)
        for j in jobs:
            j["variant"] = os.environ["VERIF_FORCE_VARIANT"]
    if tier != "thorough":
        # the quick tier concentrates on the configurations tagged "quick"; every other configuration of the same
        # harness still gets a share (one worker, a sixth of the cases), so that no configuration is only ever run
        # by the thorough tier (F28 and a false alarm of the C17 flush lived in such configurations)
        rest = []
        for j in jobs:
            t = j.get("tag", "")
            if "quick" in t.split("+") and not j.get("cfg"):
                r = dict(j)
                r["tag"] = "+".join(x for x in t.split("+") if x != "quick")
                r["cases"] = max(1000, j["cases"] // 6)
                r["workers"] = 1
                r["rest_of_configurations"] = True
                rest.append(r)
        jobs = jobs + rest
    bins, err = build_all(jobs)
    if bins is None:
        print("BUILD-FAILED property=%s\n%s" % (prop, err))
        return 2
    if vprops.fuzz_job(prop, tier):
        fexe, ferr = build_fuzz()
        if not fexe:
            print("BUILD-FAILED property=%s (fuzzseq)\n%s" % (prop, ferr[-4000:]))
            return 2
    if build_only:
        return 0
    t_build = time.time() - t0

    work = os.path.join(BUILD, "run-%s-%d" % (prop, os.getpid()))
    os.makedirs(work, exist_ok=True)
    newrep = os.environ.get("VERIF_REPLAY_DIR", os.path.join(VERIF, "replays", "new"))
    os.makedirs(newrep, exist_ok=True)
    known = load_known()

    # ---- regression tier: replay files of fixed findings must pass, those of open findings are reported
    known_lines = []
    violations = []
    regress = {"fixed_replayed": 0, "open_replayed": 0}
    for f in known.get("fixed", []):
        if prop not in prop_of(f) or not f.get("replay"):
            continue
        path = os.path.join(VERIF, f["replay"])
        res, err = run_replay_file(path)
        regress["fixed_replayed"] += 1
        if res is None:
            print("note: cannot replay %s: %s" % (path, err))
        elif res["violations"]:
            violations.append({"kind": res["expected"], "message": "regression: fixed finding %s fails again" % f.get("id"), "replay": path, "cfg": "", "harness": ""})
    for f in known.get("open", []):
        if prop not in prop_of(f):
            continue
        still = None
        if f.get("replay"):
            res, err = run_replay_file(os.path.join(VERIF, f["replay"]))
            regress["open_replayed"] += 1
            still = bool(res and res["violations"])
        known_lines.append("KNOWN-FINDING: property=%s %s: %s%s" % (prop, f.get("id"), f.get("what"), "" if still is None else (" [replay still fails]" if still else " [replay no longer fails]")))

    # ---- campaign
    tasks = []
    reuse_workers = 0
    for ji, j in enumerate(jobs):
        exe = bins[(j["src"], tuple(j.get("defines", ())), j.get("variant", "prod"))]
        nw = j.get("workers", 4)
        for w in range(nw):
            out = os.path.join(work, "j%d-w%d.json" % (ji, w))
            cmd = [exe, "--campaign", "--prop", prop, "--seed", str(seed + (7919 if j.get("rest_of_configurations") else 0)), "--cases", str(j["cases"]), "--worker", str(w), "--nworkers", str(nw),
                   "--out", out, "--replay-dir", newrep, "--variant", j.get("variant", "prod"), "--time-s", str(int(j.get("time_s", 600) * float(os.environ.get("VERIF_TIME_SCALE", "1")))),
                   "--samples", "2" if w == 0 else "0"]
            if j.get("tag"):
                cmd += ["--tag", j["tag"]]
            if j.get("cfg"):
                cmd += ["--cfg", j["cfg"]]
            if j.get("weak"):
                cmd += ["--weak", "--window", str(j.get("window", 16))]
            if j.get("solo"):
                cmd += ["--solo"]
            if j.get("plain_pct"):
                cmd += ["--plain-pct", str(j["plain_pct"])]
            if j.get("step_cap"):
                cmd += ["--step-cap", str(j["step_cap"])]
            for k, v in j.get("params", {}).items():
                cmd += ["--param", "%s=%d" % (k, v)]
            # every second worker of a sequentially consistent job runs with address reuse in the arena allocator (freed
            # blocks are handed out again, most recently freed first) so that ABA situations are reachable; the others
            # keep the quarantine (no address is ever reused), which detects every use-after-free
            if w % 2 == 1 and not j.get("weak") and "reuse" not in j.get("params", {}) and not j.get("no_reuse"):
                cmd += ["--param", "reuse=1"]
                reuse_workers += 1
            for kv in os.environ.get("VERIF_EXTRA_PARAMS", "").split():  # experiments only, e.g. "reuse=1"
                cmd += ["--param", kv]
            for f in known.get("open", []):
                if prop in prop_of(f) and harness_matches(f.get("match", {}).get("harness", ""), j["harness"]) and (not f["match"].get("weak_only") or j.get("weak")) \
                        and j.get("window", 16) >= f["match"].get("min_window", 0):
                    for kind in f["match"].get("kinds", []):
                        cmd += ["--known", "%s:%s" % (kind, f["match"].get("cfg_prefix", ""))]
            tasks.append((ji, w, cmd, out))

    import queue
    cpus = queue.Queue()
    for c in sorted(os.sched_getaffinity(0))[:NCPU]:
        cpus.put(c)

    def run_task(t):
        c = cpus.get()
        try:
            r = sh(t[2] + ["--cpu", str(c)])
        finally:
            cpus.put(c)
        return t, r.returncode, r.stdout

    results = []
    with cf.ThreadPoolExecutor(max_workers=min(NCPU, len(os.sched_getaffinity(0)))) as ex:
        for t, rc, out in ex.map(run_task, tasks):
            if rc not in (0, 1) or not os.path.exists(t[3]):
                print("note: worker %s exited with %d: %s" % (t[2][0], rc, out[-500:]))
                continue
            with open(t[3]) as fh:
                d = json.load(fh)
            d["_job"] = t[0]
            d["_fp"] = t[3] + ".fp"
            results.append(d)

    # ---- merge
    ev = {"evaluations": 0, "passes": 0, "nontrivial": 0, "total_steps": 0, "total_switches": 0, "cases_with_stale_read": 0}
    inconcl, labels, strategies, per_cfg, known_hits, counters = {}, {}, {}, {}, {}, {}
    samples = []
    fps = set()
    time_limited = False
    for d in results:
        for k in ev:
            ev[k] += d.get(k, 0)
        for name, m in (("inconclusive", inconcl), ("labels", labels), ("strategies", strategies), ("known_finding_hits", known_hits), ("counters", counters)):
            for k, v in d.get(name, {}).items():
                m[k] = m.get(k, 0) + v
        for k, v in d.get("per_cfg", {}).items():
            key = "%s/%s" % (d["harness"], k) if jobs[d["_job"]].get("variant", "prod") == "prod" else "%s/%s[%s]" % (d["harness"], k, jobs[d["_job"]]["variant"])
            a = per_cfg.setdefault(key, [0, 0])
            a[0] += v[0]
            a[1] += v[1]
        time_limited |= d.get("time_limited", False)
        for s in d.get("samples", []):
            if len(samples) < 4:
                samples.append(s)
        if os.path.exists(d["_fp"]):
            a = array.array("Q")
            with open(d["_fp"], "rb") as fh:
                a.frombytes(fh.read())
            fps.update((d["_job"], x) for x in a)
        for v in d.get("violations", []):
            v["harness"] = d["harness"]
            v["weak"] = bool(jobs[d["_job"]].get("weak"))
            v["variant"] = jobs[d["_job"]].get("variant", "prod")
            v["window"] = jobs[d["_job"]].get("window", 16)
            violations.append(v)

    # ---- Engine B: coverage-guided sequential fuzzing of the same property (native ASan/UBSan build)
    fuzz_cov = None
    if not os.environ.get("VERIF_NO_FUZZ"):
        fuzz_cov, fviol, ferr = run_fuzz_phase(prop, tier, seed, work, newrep)
        if ferr:
            print("BUILD-FAILED property=%s (fuzzseq)\n%s" % (prop, ferr[-4000:]))
            return 2
        violations += fviol

    # ---- classify violations against the known-findings file
    new_viol = []
    excluded = 0
    seen_again = {}
    for v in violations:
        hit = None
        for f in known.get("open", []):
            if matches(f, v, prop):
                hit = f
                break
        if hit:
            excluded += 1
            seen_again.setdefault(hit.get("id"), []).append(v)
        else:
            new_viol.append(v)
    for fid, vs in seen_again.items():
        known_lines.append("KNOWN-FINDING: property=%s %s seen again in this run: %s (e.g. cfg=%s replay=%s)" % (
            prop, fid, ", ".join(sorted(set(x["kind"] for x in vs))), vs[0]["cfg"], vs[0]["replay"]))
    if known_hits:
        known_lines.append("KNOWN-FINDING: property=%s hits of listed findings in this run (counted, search continued behind them): %s" % (
            prop, ", ".join("%s x%d" % kv for kv in sorted(known_hits.items()))))
    wall = time.time() - t0

    nontriv_floor = spec.get("nontrivial_floor", 0.0)
    health = []
    if ev["evaluations"]:
        inc = sum(inconcl.values())
        if inc > 0.05 * ev["evaluations"]:
            health.append("more than 5%% of the cases were inconclusive (%d of %d)" % (inc, ev["evaluations"]))
        if ev["nontrivial"] < nontriv_floor * ev["evaluations"]:
            health.append("non-trivial rate %.3f below the floor %.3f" % (ev["nontrivial"] / ev["evaluations"], nontriv_floor))
    if time_limited:
        health.append("a wall-clock budget ended some worker early (inconclusive, not a violation)")

    evidence = {
        "property_id": prop,
        "tier": tier,
        "seed": seed,
        "level": "exploration",
        "coverage": {
            "evaluations": ev["evaluations"],
            "distinct_nontrivial": len(fps),
            "rule": spec["rule"],
            "samples": samples if samples else ["(no non-trivial case was sampled in this run)"],
            "exhaustive": False,
            "passes": ev["passes"],
            "nontrivial_cases": ev["nontrivial"],
            "inconclusive": inconcl,
            "labels": labels,
            "inner_counters": counters,
            "strategies": strategies,
            "per_configuration_[cases,nontrivial]": per_cfg,
            "scheduling_points_executed": ev["total_steps"],
            "context_switches": ev["total_switches"],
            "cases_with_stale_read": ev["cases_with_stale_read"],
            "jobs": [{k: v for k, v in j.items() if k != "workers"} for j in jobs],
            "regression_replays": regress,
            "excluded_by_known_findings": sum(known_hits.values()),
            "known_finding_hits": known_hits,
            "known_findings_reported": len(known_lines),
            "address_reuse": {"workers_total": len(tasks), "workers_with_reuse": reuse_workers, "cases_in_which_a_freed_block_was_reused": labels.get("address_reused", 0),
                              "note": "workers with reuse hand freed blocks of the xenium arena out again (ABA reachable); the others quarantine every freed block (every use-after-free visible)"},
            "health_warnings": health,
            "build_s": round(t_build, 1),
            "xenium_root": XROOT,
            "engine_B_fuzz": fuzz_cov if fuzz_cov else "not used for this property (no sequential container family applies)",
        },
        "assumptions": spec.get("assumptions", []),
        "wall_s": round(wall, 1),
        "violations": len(new_viol),
    }
    if fuzz_cov:
        evidence["coverage"]["evaluations"] += fuzz_cov["cases"]
        evidence["coverage"]["evaluations_by_engine"] = {"vsched": ev["evaluations"], "vfuzz": fuzz_cov["cases"]}
        evidence["coverage"]["samples"] = evidence["coverage"]["samples"] + fuzz_cov["samples"][:1]
    evdir = os.environ.get("VERIF_EVIDENCE_DIR", os.path.join(VERIF, "evidence"))  # scratch runs (mutants) write elsewhere
    os.makedirs(evdir, exist_ok=True)
    with open(os.path.join(evdir, prop + ".json"), "w") as fh:
        json.dump(evidence, fh, indent=1)
    shutil.rmtree(work, ignore_errors=True)

    for l in known_lines:
        print(l)
    print("%s tier=%s seed=%d: %d cases, %d non-trivial (%d distinct), %d inconclusive, %d violation(s), %.1fs (build %.1fs)" % (
        prop, tier, seed, ev["evaluations"], ev["nontrivial"], len(fps), sum(inconcl.values()), len(new_viol), wall, t_build))
    if fuzz_cov:
        print("%s engine B (libFuzzer, ASan+UBSan): %d cases in %s, %d non-trivial, %d corpus units, %d violation(s), %.1fs" % (
            prop, fuzz_cov["cases"], ",".join(vprops.FUZZ[prop]), fuzz_cov["nontrivial_cases"], fuzz_cov["corpus_units"], fuzz_cov["violations"], fuzz_cov["wall_s"]))
    for h in health:
        print("health: " + h)
    if new_viol:
        seen = set()
        for v in new_viol:
            key = (v["kind"], v["cfg"])
            if key in seen:
                continue
            seen.add(key)
            print("  %s [%s/%s]: %s" % (v["kind"], v.get("harness", ""), v["cfg"], v["message"][:300]))
            print("VIOLATION property=%s replay=%s" % (prop, v["replay"]))
        return 1
    return 0


if __name__ == "__main__":
    sys.exit(main())
